//! The family of derived parsers under test. Every struct/enum carries
//!  * the derive under test (`ArgParse` / `Subcommand`),
//!  * a hand-written grammar description (option literals as *declared*, kinds, value types,
//!    positionals, subcommand variants) that does not look at anything the derive produced
//!    except the help text (used only to identify *which* level's help an error carries),
//!  * a hand-written conversion of the parsed struct into the generic `Val` tree.
#![allow(dead_code)]
#![allow(clippy::struct_field_names)]
use crate::model::{Grammar, Kind, Sc, Sub, Ty, Val, FV, O, P};
use std::str::FromStr;
use tiny_cli::{ArgParse, Subcommand};
use tiny_std::unix::cli::ArgParse as ArgParseTrait;
use tiny_std::{UnixStr, UnixString};

pub trait Shape: ArgParseTrait {
    fn grammar() -> Grammar;
    fn to_val(&self) -> Val;
}
fn help<T: ArgParseTrait>() -> String
where
    T::HelpPrinter: 'static,
{
    T::help_printer().to_string()
}

// ---- custom FromStr types ----------------------------------------------------------------
#[derive(Debug, Clone, Copy, PartialEq, Eq)]
pub enum Color {
    Red,
    Green,
    Blue,
}
#[derive(Debug)]
pub struct ColorErr;
impl std::fmt::Display for ColorErr {
    fn fmt(&self, f: &mut std::fmt::Formatter<'_>) -> std::fmt::Result {
        f.write_str("unknown color")
    }
}
impl FromStr for Color {
    type Err = ColorErr;
    fn from_str(s: &str) -> Result<Self, ColorErr> {
        match s {
            "red" => Ok(Color::Red),
            "green" => Ok(Color::Green),
            "blue" => Ok(Color::Blue),
            _ => Err(ColorErr),
        }
    }
}
/// FromStr whose error text is far longer than the 128-byte cause buffer
#[derive(Debug, Clone, Copy, PartialEq, Eq)]
pub enum Level {
    Low,
    High,
}
#[derive(Debug)]
pub struct LevelErr(String);
impl std::fmt::Display for LevelErr {
    fn fmt(&self, f: &mut std::fmt::Formatter<'_>) -> std::fmt::Result {
        write!(
            f,
            "level must be one of 'low' or 'high' (case sensitive, no surrounding white space, no abbreviations, \
             no numeric aliases, no localised spellings), but the value that was supplied is '{}'",
            self.0
        )
    }
}
impl FromStr for Level {
    type Err = LevelErr;
    fn from_str(s: &str) -> Result<Self, LevelErr> {
        match s {
            "low" => Ok(Level::Low),
            "high" => Ok(Level::High),
            o => Err(LevelErr(o.to_string())),
        }
    }
}

/// FromStr whose error text quotes the offending input right after a short prefix
#[derive(Debug, Clone, PartialEq, Eq)]
pub struct Echo(String);
#[derive(Debug)]
pub struct EchoErr(String);
impl std::fmt::Display for EchoErr {
    fn fmt(&self, f: &mut std::fmt::Formatter<'_>) -> std::fmt::Result {
        write!(f, "no:'{}'", self.0)
    }
}
impl FromStr for Echo {
    type Err = EchoErr;
    fn from_str(s: &str) -> Result<Self, EchoErr> {
        if s.starts_with("ok:") {
            Ok(Echo(s.to_string()))
        } else {
            Err(EchoErr(s.to_string()))
        }
    }
}

// ---- conversions ---------------------------------------------------------------------------
fn s(x: &str) -> Sc {
    Sc::B(x.as_bytes().to_vec())
}
fn u(x: &UnixStr) -> Sc {
    let b = x.as_slice();
    // a UnixStr handed back by the parser must still be NUL terminated exactly once
    match b.split_last() {
        Some((0, body)) if !body.contains(&0) => Sc::B(body.to_vec()),
        _ => Sc::Broken,
    }
}
fn i<T: Into<i128>>(x: T) -> Sc {
    Sc::I(x.into())
}
fn col(c: Color) -> Sc {
    Sc::T(c as u8)
}
fn lev(l: Level) -> Sc {
    Sc::T(l as u8)
}
const INT_I32: Ty = Ty::Int {
    min: i32::MIN as i128,
    max: i32::MAX as i128,
};
const INT_I64: Ty = Ty::Int {
    min: i64::MIN as i128,
    max: i64::MAX as i128,
};
const INT_U8: Ty = Ty::Int { min: 0, max: 255 };
const INT_U16: Ty = Ty::Int { min: 0, max: 65_535 };
const INT_USIZE: Ty = Ty::Int {
    min: 0,
    max: usize::MAX as i128,
};
const INT_I128: Ty = Ty::Int {
    min: i128::MIN,
    max: i128::MAX,
};
const COLOR: Ty = Ty::Tag(&["red", "green", "blue"]);
const LEVEL: Ty = Ty::Tag(&["low", "high"]);

fn o(lits: &[&'static str], kind: Kind, ty: Ty) -> O {
    O {
        lits: lits.to_vec(),
        kind,
        ty,
    }
}
fn p(name: &'static str, req: bool, ty: Ty) -> P {
    P { name, req, ty }
}

// ---- S01 -----------------------------------------------------------------------------------
#[derive(ArgParse)]
#[cli(help_path = "h-cli")]
pub struct S01ReqLong {
    #[cli(long = "one-req-field")]
    one_req_field: i32,
}
impl Shape for S01ReqLong {
    fn grammar() -> Grammar {
        Grammar {
            name: "S01ReqLong",
            opts: vec![o(&["--one-req-field"], Kind::Req, INT_I32)],
            pos: vec![],
            sub: None,
            help: help::<Self>(),
        }
    }
    fn to_val(&self) -> Val {
        Val {
            opts: vec![FV::One(Some(i(self.one_req_field)))],
            pos: vec![],
            sub: None,
        }
    }
}

// ---- S02 -----------------------------------------------------------------------------------
#[derive(ArgParse)]
pub struct S02Aliases {
    #[cli(short = "s", long = "long")]
    num: i32,
    #[cli(short = "b")]
    flag: bool,
}
impl Shape for S02Aliases {
    fn grammar() -> Grammar {
        Grammar {
            name: "S02Aliases",
            opts: vec![
                o(&["-s", "--long"], Kind::Req, INT_I32),
                o(&["-b"], Kind::Flag, Ty::Str),
            ],
            pos: vec![],
            sub: None,
            help: help::<Self>(),
        }
    }
    fn to_val(&self) -> Val {
        Val {
            opts: vec![FV::One(Some(i(self.num))), FV::Flag(self.flag)],
            pos: vec![],
            sub: None,
        }
    }
}

// ---- S03 -----------------------------------------------------------------------------------
#[derive(ArgParse)]
pub struct S03Packaging {
    #[cli(long = "req-field")]
    req_field: i32,
    #[cli(short = "o")]
    opt_field: Option<i32>,
    #[cli(long = "rep")]
    rep_field: Vec<i32>,
}
impl Shape for S03Packaging {
    fn grammar() -> Grammar {
        Grammar {
            name: "S03Packaging",
            opts: vec![
                o(&["--req-field"], Kind::Req, INT_I32),
                o(&["-o"], Kind::Opt, INT_I32),
                o(&["--rep"], Kind::Rep, INT_I32),
            ],
            pos: vec![],
            sub: None,
            help: help::<Self>(),
        }
    }
    fn to_val(&self) -> Val {
        Val {
            opts: vec![
                FV::One(Some(i(self.req_field))),
                FV::One(self.opt_field.map(i)),
                FV::Many(self.rep_field.iter().map(|x| i(*x)).collect()),
            ],
            pos: vec![],
            sub: None,
        }
    }
}

// ---- S04 -----------------------------------------------------------------------------------
#[derive(ArgParse)]
#[cli(help_path = "h-cli")]
pub struct S04PosOnly {
    pos_one: String,
    pos_two: i64,
}
impl Shape for S04PosOnly {
    fn grammar() -> Grammar {
        Grammar {
            name: "S04PosOnly",
            opts: vec![],
            pos: vec![p("pos_one", true, Ty::Str), p("pos_two", true, INT_I64)],
            sub: None,
            help: help::<Self>(),
        }
    }
    fn to_val(&self) -> Val {
        Val {
            opts: vec![],
            pos: vec![Some(s(&self.pos_one)), Some(i(self.pos_two))],
            sub: None,
        }
    }
}

// ---- S05 -----------------------------------------------------------------------------------
#[derive(ArgParse)]
#[cli(help_path = "h-cli")]
pub struct S05PosOptLast {
    pub pos_one: String,
    pub(crate) pos_two: i64,
    pos_three: Option<usize>,
}
impl Shape for S05PosOptLast {
    fn grammar() -> Grammar {
        Grammar {
            name: "S05PosOptLast",
            opts: vec![],
            pos: vec![
                p("pos_one", true, Ty::Str),
                p("pos_two", true, INT_I64),
                p("pos_three", false, INT_USIZE),
            ],
            sub: None,
            help: help::<Self>(),
        }
    }
    fn to_val(&self) -> Val {
        Val {
            opts: vec![],
            pos: vec![
                Some(s(&self.pos_one)),
                Some(i(self.pos_two)),
                self.pos_three.map(|x| Sc::I(x as i128)),
            ],
            sub: None,
        }
    }
}

// ---- S06 -----------------------------------------------------------------------------------
#[derive(ArgParse)]
#[cli(help_path = "h-cli, run")]
pub struct S06StrKinds {
    #[cli(short = "a")]
    opt_str: Option<&'static str>,
    #[cli(short = "b")]
    opt_unix: Option<&'static UnixStr>,
    #[cli(short = "c")]
    rep_str: Vec<&'static str>,
    #[cli(short = "d")]
    rep_unix: Vec<&'static UnixStr>,
}
impl Shape for S06StrKinds {
    fn grammar() -> Grammar {
        Grammar {
            name: "S06StrKinds",
            opts: vec![
                o(&["-a"], Kind::Opt, Ty::Str),
                o(&["-b"], Kind::Opt, Ty::Unix),
                o(&["-c"], Kind::Rep, Ty::Str),
                o(&["-d"], Kind::Rep, Ty::Unix),
            ],
            pos: vec![],
            sub: None,
            help: help::<Self>(),
        }
    }
    fn to_val(&self) -> Val {
        Val {
            opts: vec![
                FV::One(self.opt_str.map(s)),
                FV::One(self.opt_unix.map(u)),
                FV::Many(self.rep_str.iter().map(|x| s(x)).collect()),
                FV::Many(self.rep_unix.iter().map(|x| u(x)).collect()),
            ],
            pos: vec![],
            sub: None,
        }
    }
}

// ---- S07 -----------------------------------------------------------------------------------
#[derive(ArgParse)]
#[cli(help_path = "h-cli, list")]
pub struct S07Owned {
    #[cli(long = "opt-string")]
    opt_string: Option<String>,
    #[cli(long = "rep")]
    rep_unix_string: Vec<UnixString>,
    /// This is required
    #[cli(long = "req")]
    required_string: String,
}
impl Shape for S07Owned {
    fn grammar() -> Grammar {
        Grammar {
            name: "S07Owned",
            opts: vec![
                o(&["--opt-string"], Kind::Opt, Ty::Str),
                o(&["--rep"], Kind::Rep, Ty::Str),
                o(&["--req"], Kind::Req, Ty::Str),
            ],
            pos: vec![],
            sub: None,
            help: help::<Self>(),
        }
    }
    fn to_val(&self) -> Val {
        Val {
            opts: vec![
                FV::One(self.opt_string.as_deref().map(s)),
                FV::Many(self.rep_unix_string.iter().map(|x| u(x)).collect()),
                FV::One(Some(s(&self.required_string))),
            ],
            pos: vec![],
            sub: None,
        }
    }
}

// ---- S08 -----------------------------------------------------------------------------------
/// Positionals and options mixed
#[derive(ArgParse)]
#[cli(help_path = "h-cli, mixed")]
pub struct S08Mixed {
    /// where to
    target: &'static UnixStr,
    #[cli(short = "v", long = "verbose")]
    verbose: bool,
    #[cli(short = "n", long = "num")]
    num: i64,
    #[cli(long = "tag")]
    tags: Vec<String>,
    label: Option<&'static str>,
}
impl Shape for S08Mixed {
    fn grammar() -> Grammar {
        Grammar {
            name: "S08Mixed",
            opts: vec![
                o(&["-v", "--verbose"], Kind::Flag, Ty::Str),
                o(&["-n", "--num"], Kind::Req, INT_I64),
                o(&["--tag"], Kind::Rep, Ty::Str),
            ],
            pos: vec![p("target", true, Ty::Unix), p("label", false, Ty::Str)],
            sub: None,
            help: help::<Self>(),
        }
    }
    fn to_val(&self) -> Val {
        Val {
            opts: vec![
                FV::Flag(self.verbose),
                FV::One(Some(i(self.num))),
                FV::Many(self.tags.iter().map(|x| s(x)).collect()),
            ],
            pos: vec![Some(u(self.target)), self.label.map(s)],
            sub: None,
        }
    }
}

// ---- S09 -----------------------------------------------------------------------------------
#[derive(ArgParse)]
#[cli(help_path = "h-cli, custom")]
pub struct S09Custom {
    #[cli(long = "color")]
    color: Color,
    #[cli(long = "level")]
    level: Option<Level>,
    #[cli(short = "x")]
    small: Option<u8>,
    shade: Option<Color>,
}
impl Shape for S09Custom {
    fn grammar() -> Grammar {
        Grammar {
            name: "S09Custom",
            opts: vec![
                o(&["--color"], Kind::Req, COLOR),
                o(&["--level"], Kind::Opt, LEVEL),
                o(&["-x"], Kind::Opt, INT_U8),
            ],
            pos: vec![p("shade", false, COLOR)],
            sub: None,
            help: help::<Self>(),
        }
    }
    fn to_val(&self) -> Val {
        Val {
            opts: vec![
                FV::One(Some(col(self.color))),
                FV::One(self.level.map(lev)),
                FV::One(self.small.map(i)),
            ],
            pos: vec![self.shade.map(col)],
            sub: None,
        }
    }
}

// ---- S10 -----------------------------------------------------------------------------------
#[derive(ArgParse)]
pub struct S10ManyOpts {
    #[cli(short = "a")]
    alpha: i32,
    #[cli(short = "b")]
    beta: Option<i64>,
    #[cli(short = "c")]
    cflag: bool,
    #[cli(short = "d", long = "delta")]
    delta: Option<&'static str>,
    #[cli(long = "eps")]
    eps: Vec<u8>,
    #[cli(short = "f")]
    fflag: bool,
    #[cli(long = "gamma")]
    gamma: Option<i128>,
}
impl Shape for S10ManyOpts {
    fn grammar() -> Grammar {
        Grammar {
            name: "S10ManyOpts",
            opts: vec![
                o(&["-a"], Kind::Req, INT_I32),
                o(&["-b"], Kind::Opt, INT_I64),
                o(&["-c"], Kind::Flag, Ty::Str),
                o(&["-d", "--delta"], Kind::Opt, Ty::Str),
                o(&["--eps"], Kind::Rep, INT_U8),
                o(&["-f"], Kind::Flag, Ty::Str),
                o(&["--gamma"], Kind::Opt, INT_I128),
            ],
            pos: vec![],
            sub: None,
            help: help::<Self>(),
        }
    }
    fn to_val(&self) -> Val {
        Val {
            opts: vec![
                FV::One(Some(i(self.alpha))),
                FV::One(self.beta.map(i)),
                FV::Flag(self.cflag),
                FV::One(self.delta.map(s)),
                FV::Many(self.eps.iter().map(|x| i(*x)).collect()),
                FV::Flag(self.fflag),
                FV::One(self.gamma.map(Sc::I)),
            ],
            pos: vec![],
            sub: None,
        }
    }
}

// ---- S11 -----------------------------------------------------------------------------------
/// Doc comment on struct
#[derive(ArgParse)]
#[cli(help_path = "h-cli")]
pub struct S11SubRequired {
    /// Doc comment on field
    #[cli(subcommand)]
    sc: Cmd11,
}
/// Doc comment on cmd
#[derive(Subcommand, Debug)]
pub enum Cmd11 {
    /// Doc comment on tag
    CmdOne,
    CmdTwo(Sub11Two),
    CmdThree,
}
#[derive(ArgParse, Debug)]
#[cli(help_path = "h-cli, cmd-two")]
pub struct Sub11Two {
    #[cli(long = "field1")]
    field1: i32,
}
impl Shape for Sub11Two {
    fn grammar() -> Grammar {
        Grammar {
            name: "Sub11Two",
            opts: vec![o(&["--field1"], Kind::Req, INT_I32)],
            pos: vec![],
            sub: None,
            help: help::<Self>(),
        }
    }
    fn to_val(&self) -> Val {
        Val {
            opts: vec![FV::One(Some(i(self.field1)))],
            pos: vec![],
            sub: None,
        }
    }
}
impl Shape for S11SubRequired {
    fn grammar() -> Grammar {
        Grammar {
            name: "S11SubRequired",
            opts: vec![],
            pos: vec![],
            sub: Some(Sub {
                optional: false,
                vars: vec![
                    ("cmd-one", None),
                    ("cmd-two", Some(Sub11Two::grammar())),
                    ("cmd-three", None),
                ],
            }),
            help: help::<Self>(),
        }
    }
    fn to_val(&self) -> Val {
        Val {
            opts: vec![],
            pos: vec![],
            sub: Some(match &self.sc {
                Cmd11::CmdOne => (0, None),
                Cmd11::CmdTwo(t) => (1, Some(Box::new(t.to_val()))),
                Cmd11::CmdThree => (2, None),
            }),
        }
    }
}

// ---- S12 -----------------------------------------------------------------------------------
#[derive(ArgParse, Debug)]
pub struct S12NestedOptional {
    #[cli(subcommand)]
    command: Cmd12,
}
#[derive(Subcommand, Debug)]
pub enum Cmd12 {
    MyTag(Nest12),
}
#[derive(ArgParse, Debug)]
pub struct Nest12 {
    #[cli(subcommand)]
    inner: Option<Inner12>,
}
#[derive(Subcommand, Debug)]
pub enum Inner12 {
    A,
    B,
}
impl Shape for Nest12 {
    fn grammar() -> Grammar {
        Grammar {
            name: "Nest12",
            opts: vec![],
            pos: vec![],
            sub: Some(Sub {
                optional: true,
                vars: vec![("a", None), ("b", None)],
            }),
            help: help::<Self>(),
        }
    }
    fn to_val(&self) -> Val {
        Val {
            opts: vec![],
            pos: vec![],
            sub: self.inner.as_ref().map(|x| match x {
                Inner12::A => (0, None),
                Inner12::B => (1, None),
            }),
        }
    }
}
impl Shape for S12NestedOptional {
    fn grammar() -> Grammar {
        Grammar {
            name: "S12NestedOptional",
            opts: vec![],
            pos: vec![],
            sub: Some(Sub {
                optional: false,
                vars: vec![("my-tag", Some(Nest12::grammar()))],
            }),
            help: help::<Self>(),
        }
    }
    fn to_val(&self) -> Val {
        let Cmd12::MyTag(n) = &self.command;
        Val {
            opts: vec![],
            pos: vec![],
            sub: Some((0, Some(Box::new(n.to_val())))),
        }
    }
}

// ---- S13 -----------------------------------------------------------------------------------
/// My complex cli tool
#[derive(ArgParse, Debug)]
#[cli(help_path = "h-cli")]
pub struct S13Complex {
    /// Naked field, but has comment
    #[cli(long = "my-field")]
    my_field: i32,
    #[cli(short = "s", long = "my-field-has-short")]
    my_field_has_short: String,
    #[cli(long = "long-field")]
    my_field_has_long_remap: &'static UnixStr,
    #[cli(short = "c", long = "long-double")]
    my_field_has_double_remap: &'static str,
    #[cli(subcommand)]
    subcommand: Cmd13,
}
#[derive(Subcommand, Debug)]
pub enum Cmd13 {
    /// For running
    Run(Run13),
    List(List13),
    /// No comment
    Other(Other13),
    Arg(Arg13),
}
#[derive(ArgParse, Debug)]
#[cli(help_path = "h-cli, run")]
pub struct Run13 {
    #[cli(short = "a")]
    arg_has_opt_str: Option<&'static str>,
    #[cli(short = "b")]
    arg_has_opt_unix_str: Option<&'static UnixStr>,
    #[cli(short = "c")]
    arg_has_rep_str: Vec<&'static str>,
    #[cli(short = "d")]
    arg_has_rep_unix_str: Vec<&'static UnixStr>,
}
#[derive(ArgParse, Debug)]
#[cli(help_path = "h-cli, list")]
pub struct List13 {
    #[cli(long = "arg-has-opt-string")]
    arg_has_opt_string: Option<String>,
    #[cli(long = "rep")]
    arg_has_rep_unix_string: Vec<UnixString>,
    /// This is required
    #[cli(long = "req")]
    arg_has_required_string: String,
}
#[derive(ArgParse, Debug)]
#[cli(help_path = "h-cli, other")]
pub struct Other13 {
    /// This field is required
    #[cli(long = "required-field")]
    required_field: i32,
    /// Also has optional subcommand
    #[cli(subcommand)]
    subc_opt: Option<OtherSub13>,
}
#[derive(ArgParse, Debug)]
#[cli(help_path = "h-cli, arg")]
pub struct Arg13 {
    /// Required positional argument
    subc_arg: String,
    /// Optional option
    #[cli(short = "o")]
    opt: Option<i32>,
}
#[derive(Subcommand, Debug)]
pub enum OtherSub13 {
    OnlyOneOption(OptStruct13),
}
#[derive(ArgParse, Debug)]
#[cli(help_path = "h-cli, other, only-one-option")]
pub struct OptStruct13 {
    /// This isn't required
    #[cli(long = "only-one-opt-owned-field")]
    only_one_opt_owned_field: Option<i128>,
}
impl Shape for Run13 {
    fn grammar() -> Grammar {
        Grammar {
            name: "Run13",
            opts: vec![
                o(&["-a"], Kind::Opt, Ty::Str),
                o(&["-b"], Kind::Opt, Ty::Unix),
                o(&["-c"], Kind::Rep, Ty::Str),
                o(&["-d"], Kind::Rep, Ty::Unix),
            ],
            pos: vec![],
            sub: None,
            help: help::<Self>(),
        }
    }
    fn to_val(&self) -> Val {
        Val {
            opts: vec![
                FV::One(self.arg_has_opt_str.map(s)),
                FV::One(self.arg_has_opt_unix_str.map(u)),
                FV::Many(self.arg_has_rep_str.iter().map(|x| s(x)).collect()),
                FV::Many(self.arg_has_rep_unix_str.iter().map(|x| u(x)).collect()),
            ],
            pos: vec![],
            sub: None,
        }
    }
}
impl Shape for List13 {
    fn grammar() -> Grammar {
        Grammar {
            name: "List13",
            opts: vec![
                o(&["--arg-has-opt-string"], Kind::Opt, Ty::Str),
                o(&["--rep"], Kind::Rep, Ty::Str),
                o(&["--req"], Kind::Req, Ty::Str),
            ],
            pos: vec![],
            sub: None,
            help: help::<Self>(),
        }
    }
    fn to_val(&self) -> Val {
        Val {
            opts: vec![
                FV::One(self.arg_has_opt_string.as_deref().map(s)),
                FV::Many(self.arg_has_rep_unix_string.iter().map(|x| u(x)).collect()),
                FV::One(Some(s(&self.arg_has_required_string))),
            ],
            pos: vec![],
            sub: None,
        }
    }
}
impl Shape for OptStruct13 {
    fn grammar() -> Grammar {
        Grammar {
            name: "OptStruct13",
            opts: vec![o(&["--only-one-opt-owned-field"], Kind::Opt, INT_I128)],
            pos: vec![],
            sub: None,
            help: help::<Self>(),
        }
    }
    fn to_val(&self) -> Val {
        Val {
            opts: vec![FV::One(self.only_one_opt_owned_field.map(Sc::I))],
            pos: vec![],
            sub: None,
        }
    }
}
impl Shape for Other13 {
    fn grammar() -> Grammar {
        Grammar {
            name: "Other13",
            opts: vec![o(&["--required-field"], Kind::Req, INT_I32)],
            pos: vec![],
            sub: Some(Sub {
                optional: true,
                vars: vec![("only-one-option", Some(OptStruct13::grammar()))],
            }),
            help: help::<Self>(),
        }
    }
    fn to_val(&self) -> Val {
        Val {
            opts: vec![FV::One(Some(i(self.required_field)))],
            pos: vec![],
            sub: self.subc_opt.as_ref().map(|x| {
                let OtherSub13::OnlyOneOption(o) = x;
                (0, Some(Box::new(o.to_val())))
            }),
        }
    }
}
impl Shape for Arg13 {
    fn grammar() -> Grammar {
        Grammar {
            name: "Arg13",
            opts: vec![o(&["-o"], Kind::Opt, INT_I32)],
            pos: vec![p("subc_arg", true, Ty::Str)],
            sub: None,
            help: help::<Self>(),
        }
    }
    fn to_val(&self) -> Val {
        Val {
            opts: vec![FV::One(self.opt.map(i))],
            pos: vec![Some(s(&self.subc_arg))],
            sub: None,
        }
    }
}
impl Shape for S13Complex {
    fn grammar() -> Grammar {
        Grammar {
            name: "S13Complex",
            opts: vec![
                o(&["--my-field"], Kind::Req, INT_I32),
                o(&["-s", "--my-field-has-short"], Kind::Req, Ty::Str),
                o(&["--long-field"], Kind::Req, Ty::Unix),
                o(&["-c", "--long-double"], Kind::Req, Ty::Str),
            ],
            pos: vec![],
            sub: Some(Sub {
                optional: false,
                vars: vec![
                    ("run", Some(Run13::grammar())),
                    ("list", Some(List13::grammar())),
                    ("other", Some(Other13::grammar())),
                    ("arg", Some(Arg13::grammar())),
                ],
            }),
            help: help::<Self>(),
        }
    }
    fn to_val(&self) -> Val {
        Val {
            opts: vec![
                FV::One(Some(i(self.my_field))),
                FV::One(Some(s(&self.my_field_has_short))),
                FV::One(Some(u(self.my_field_has_long_remap))),
                FV::One(Some(s(self.my_field_has_double_remap))),
            ],
            pos: vec![],
            sub: Some(match &self.subcommand {
                Cmd13::Run(x) => (0, Some(Box::new(x.to_val()))),
                Cmd13::List(x) => (1, Some(Box::new(x.to_val()))),
                Cmd13::Other(x) => (2, Some(Box::new(x.to_val()))),
                Cmd13::Arg(x) => (3, Some(Box::new(x.to_val()))),
            }),
        }
    }
}

// ---- S14 -----------------------------------------------------------------------------------
#[derive(ArgParse, Debug)]
#[cli(help_path = "h-cli, svc")]
pub struct S14OptSubWithOpts {
    #[cli(short = "q")]
    quiet: bool,
    #[cli(long = "name")]
    name: Option<&'static str>,
    #[cli(subcommand)]
    cmd: Option<Cmd14>,
}
#[derive(Subcommand, Debug)]
pub enum Cmd14 {
    /// start it
    Start(Start14),
    Stop,
    /// report
    Status,
}
#[derive(ArgParse, Debug)]
#[cli(help_path = "h-cli, svc, start")]
pub struct Start14 {
    path: &'static UnixStr,
    #[cli(short = "p")]
    port: Option<u16>,
}
impl Shape for Start14 {
    fn grammar() -> Grammar {
        Grammar {
            name: "Start14",
            opts: vec![o(&["-p"], Kind::Opt, INT_U16)],
            pos: vec![p("path", true, Ty::Unix)],
            sub: None,
            help: help::<Self>(),
        }
    }
    fn to_val(&self) -> Val {
        Val {
            opts: vec![FV::One(self.port.map(i))],
            pos: vec![Some(u(self.path))],
            sub: None,
        }
    }
}
impl Shape for S14OptSubWithOpts {
    fn grammar() -> Grammar {
        Grammar {
            name: "S14OptSubWithOpts",
            opts: vec![
                o(&["-q"], Kind::Flag, Ty::Str),
                o(&["--name"], Kind::Opt, Ty::Str),
            ],
            pos: vec![],
            sub: Some(Sub {
                optional: true,
                vars: vec![
                    ("start", Some(Start14::grammar())),
                    ("stop", None),
                    ("status", None),
                ],
            }),
            help: help::<Self>(),
        }
    }
    fn to_val(&self) -> Val {
        Val {
            opts: vec![FV::Flag(self.quiet), FV::One(self.name.map(s))],
            pos: vec![],
            sub: self.cmd.as_ref().map(|c| match c {
                Cmd14::Start(x) => (0, Some(Box::new(x.to_val()))),
                Cmd14::Stop => (1, None),
                Cmd14::Status => (2, None),
            }),
        }
    }
}

// ---- S15 -----------------------------------------------------------------------------------
#[derive(ArgParse)]
pub struct S15BoolsOnly {
    #[cli(short = "a")]
    aflag: bool,
    #[cli(short = "b", long = "bee")]
    bflag: bool,
    #[cli(long = "cee")]
    cflag: bool,
}
impl Shape for S15BoolsOnly {
    fn grammar() -> Grammar {
        Grammar {
            name: "S15BoolsOnly",
            opts: vec![
                o(&["-a"], Kind::Flag, Ty::Str),
                o(&["-b", "--bee"], Kind::Flag, Ty::Str),
                o(&["--cee"], Kind::Flag, Ty::Str),
            ],
            pos: vec![],
            sub: None,
            help: help::<Self>(),
        }
    }
    fn to_val(&self) -> Val {
        Val {
            opts: vec![
                FV::Flag(self.aflag),
                FV::Flag(self.bflag),
                FV::Flag(self.cflag),
            ],
            pos: vec![],
            sub: None,
        }
    }
}

// ---- S16 -----------------------------------------------------------------------------------
/// Literals declared with upper case / underscores. The derive normalises option literals to
/// lower-case kebab-case (the help text shows the normalised form), so the grammar below uses the
/// normalised literals; what happens to the literal exactly as written is recorded as an
/// observation by the harness (mode `observe`), not judged.
#[derive(ArgParse)]
pub struct S16Normalised {
    #[cli(short = "V", long = "Verbose_Mode")]
    verbose: bool,
    #[cli(short = "N")]
    count: Option<u8>,
}
impl Shape for S16Normalised {
    fn grammar() -> Grammar {
        Grammar {
            name: "S16Normalised",
            opts: vec![
                o(&["-v", "--verbose-mode"], Kind::Flag, Ty::Str),
                o(&["-n"], Kind::Opt, INT_U8),
            ],
            pos: vec![],
            sub: None,
            help: help::<Self>(),
        }
    }
    fn to_val(&self) -> Val {
        Val {
            opts: vec![FV::Flag(self.verbose), FV::One(self.count.map(i))],
            pos: vec![],
            sub: None,
        }
    }
}

// ---- S17 -----------------------------------------------------------------------------------
/// Values whose conversion error quotes the input
#[derive(ArgParse)]
#[cli(help_path = "h-cli, echo")]
pub struct S17Echo {
    #[cli(long = "echo")]
    echo: Option<Echo>,
    #[cli(short = "e")]
    many: Vec<Echo>,
    word: Option<Echo>,
}
impl Shape for S17Echo {
    fn grammar() -> Grammar {
        Grammar {
            name: "S17Echo",
            opts: vec![
                o(&["--echo"], Kind::Opt, Ty::Echo),
                o(&["-e"], Kind::Rep, Ty::Echo),
            ],
            pos: vec![p("word", false, Ty::Echo)],
            sub: None,
            help: help::<Self>(),
        }
    }
    fn to_val(&self) -> Val {
        Val {
            opts: vec![
                FV::One(self.echo.as_ref().map(|e| s(&e.0))),
                FV::Many(self.many.iter().map(|e| s(&e.0)).collect()),
            ],
            pos: vec![self.word.as_ref().map(|e| s(&e.0))],
            sub: None,
        }
    }
}
