//! The family of derived parsers under test. Every struct/enum carries
//!  * the derive under test (`ArgParse` / `Subcommand`),
//!  * a hand-written grammar description (option literals as *declared*, kinds, value types,
//!    positionals, subcommand variants) that does not look at anything the derive produced
//!    except the help text (used only to identify *which* level's help an error carries),
//!  * a hand-written conversion of the parsed struct into the generic `Val` tree.
#![allow(dead_code)]
#![allow(clippy::struct_field_names)]
use crate::model::{Grammar, Kind, Sc, Sub, Ty, Val, FV, O, P};
use std::str::FromStr;
use tiny_cli::{ArgParse, Subcommand};
use tiny_std::unix::cli::ArgParse as ArgParseTrait;
use tiny_std::{UnixStr, UnixString};

pub trait Shape: ArgParseTrait {
    fn grammar() -> Grammar;
    fn to_val(&self) -> Val;
}
fn help<T: ArgParseTrait>() -> String
where
    T::HelpPrinter: 'static,
{
    T::help_printer().to_string()
}

// ---- custom FromStr types ----------------------------------------------------------------
#[derive(Debug, Clone, Copy, PartialEq, Eq)]
pub enum Color {
    Red,
    Green,
    Blue,
}
#[derive(Debug)]
pub struct ColorErr;
impl std::fmt::Display for ColorErr {
    fn fmt(&self, f: &mut std::fmt::Formatter<'_>) -> std::fmt::Result {
        f.write_str("unknown color")
    }
}
impl FromStr for Color {
    type Err = ColorErr;
    fn from_str(s: &str) -> Result<Self, ColorErr> {
        match s {
            "red" => Ok(Color::Red),
            "green" => Ok(Color::Green),
            "blue" => Ok(Color::Blue),
            _ => Err(ColorErr),
        }
    }
}
/// FromStr whose error text is far longer than the 128-byte cause buffer
#[derive(Debug, Clone, Copy, PartialEq, Eq)]
pub enum Level {
    Low,
    High,
}
#[derive(Debug)]
pub struct LevelErr(String);
impl std::fmt::Display for LevelErr {
    fn fmt(&self, f: &mut std::fmt::Formatter<'_>) -> std::fmt::Result {
        write!(
            f,
            "level must be one of 'low' or 'high' (case sensitive, no surrounding white space, no abbreviations, \
             no numeric aliases, no localised spellings), but the value that was supplied is '{}'",
            self.0
        )
    }
}
impl FromStr for Level {
    type Err = LevelErr;
    fn from_str(s: &str) -> Result<Self, LevelErr> {
        match s {
            "low" => Ok(Level::Low),
            "high" => Ok(Level::High),
            o => Err(LevelErr(o.to_string())),
        }
    }
}

/// FromStr whose error text quotes the offending input right after a short prefix
#[derive(Debug, Clone, PartialEq, Eq)]
pub struct Echo(String);
#[derive(Debug)]
pub struct EchoErr(String);
impl std::fmt::Display for EchoErr {
    fn fmt(&self, f: &mut std::fmt::Formatter<'_>) -> std::fmt::Result {
        write!(f, "no:'{}'", self.0)
    }
}
impl FromStr for Echo {
    type Err = EchoErr;
    fn from_str(s: &str) -> Result<Self, EchoErr> {
        if s.starts_with("ok:") {
            Ok(Echo(s.to_string()))
        } else {
            Err(EchoErr(s.to_string()))
        }
    }
}

// ---- conversions ---------------------------------------------------------------------------
fn s(x: &str) -> Sc {
    Sc::B(x.as_bytes().to_vec())
}
fn u(x: &UnixStr) -> Sc {
    let b = x.as_slice();
    // a UnixStr handed back by the parser must still be NUL terminated exactly once
    match b.split_last() {
        Some((0, body)) if !body.contains(&0) => Sc::B(body.to_vec()),
        _ => Sc::Broken,
    }
}
fn i<T: Into<i128>>(x: T) -> Sc {
    Sc::I(x.into())
}
fn col(c: Color) -> Sc {
    Sc::T(c as u8)
}
fn lev(l: Level) -> Sc {
    Sc::T(l as u8)
}
const INT_I32: Ty = Ty::Int {
    min: i32::MIN as i128,
    max: i32::MAX as i128,
};
const INT_I64: Ty = Ty::Int {
    min: i64::MIN as i128,
    max: i64::MAX as i128,
};
const INT_U8: Ty = Ty::Int { min: 0, max: 255 };
const INT_U16: Ty = Ty::Int { min: 0, max: 65_535 };
const INT_USIZE: Ty = Ty::Int {
    min: 0,
    max: usize::MAX as i128,
};
const INT_I128: Ty = Ty::Int {
    min: i128::MIN,
    max: i128::MAX,
};
const COLOR: Ty = Ty::Tag(&["red", "green", "blue"]);
const LEVEL: Ty = Ty::Tag(&["low", "high"]);

fn o(lits: &[&'static str], kind: Kind, ty: Ty) -> O {
    O {
        lits: lits.to_vec(),
        kind,
        ty,
        doc: vec![],
    }
}
fn p(name: &'static str, req: bool, ty: Ty) -> P {
    P {
        name,
        req,
        ty,
        doc: vec![],
    }
}

// ---- S01 -----------------------------------------------------------------------------------
#[derive(ArgParse)]
#[cli(help_path = "h-cli")]
pub struct S01ReqLong {
    /// DOC_S01ReqLong_one_req_field explains this item
    #[cli(long = "one-req-field")]
    one_req_field: i32,
}
impl Shape for S01ReqLong {
    fn grammar() -> Grammar {
        Grammar {
            name: "S01ReqLong",
            doc: vec![],
            opts: vec![o(&["--one-req-field"], Kind::Req, INT_I32).d(&["DOC_S01ReqLong_one_req_field"])],
            pos: vec![],
            sub: None,
            help: help::<Self>(),
        }
    }
    fn to_val(&self) -> Val {
        Val {
            opts: vec![FV::One(Some(i(self.one_req_field)))],
            pos: vec![],
            sub: None,
        }
    }
}

// ---- S02 -----------------------------------------------------------------------------------
#[derive(ArgParse)]
pub struct S02Aliases {
    /// DOC_S02Aliases_num explains this item
    #[cli(short = "s", long = "long")]
    num: i32,
    #[cli(short = "b")]
    flag: bool,
}
impl Shape for S02Aliases {
    fn grammar() -> Grammar {
        Grammar {
            name: "S02Aliases",
            doc: vec![],
            opts: vec![
                o(&["-s", "--long"], Kind::Req, INT_I32).d(&["DOC_S02Aliases_num"]),
                o(&["-b"], Kind::Flag, Ty::Str),
            ],
            pos: vec![],
            sub: None,
            help: help::<Self>(),
        }
    }
    fn to_val(&self) -> Val {
        Val {
            opts: vec![FV::One(Some(i(self.num))), FV::Flag(self.flag)],
            pos: vec![],
            sub: None,
        }
    }
}

// ---- S03 -----------------------------------------------------------------------------------
#[derive(ArgParse)]
pub struct S03Packaging {
    /// DOC_S03Packaging_req_field explains this item
    #[cli(long = "req-field")]
    req_field: i32,
    /// DOC_S03Packaging_opt_field_L1 explains this item
    /// DOC_S03Packaging_opt_field_L2 explains this item
    #[cli(short = "o")]
    opt_field: Option<i32>,
    /// DOC_S03Packaging_rep_field explains this item
    #[cli(long = "rep")]
    rep_field: Vec<i32>,
}
impl Shape for S03Packaging {
    fn grammar() -> Grammar {
        Grammar {
            name: "S03Packaging",
            doc: vec![],
            opts: vec![
                o(&["--req-field"], Kind::Req, INT_I32).d(&["DOC_S03Packaging_req_field"]),
                o(&["-o"], Kind::Opt, INT_I32).d(&["DOC_S03Packaging_opt_field_L1", "DOC_S03Packaging_opt_field_L2"]),
                o(&["--rep"], Kind::Rep, INT_I32).d(&["DOC_S03Packaging_rep_field"]),
            ],
            pos: vec![],
            sub: None,
            help: help::<Self>(),
        }
    }
    fn to_val(&self) -> Val {
        Val {
            opts: vec![
                FV::One(Some(i(self.req_field))),
                FV::One(self.opt_field.map(i)),
                FV::Many(self.rep_field.iter().map(|x| i(*x)).collect()),
            ],
            pos: vec![],
            sub: None,
        }
    }
}

// ---- S04 -----------------------------------------------------------------------------------
#[derive(ArgParse)]
#[cli(help_path = "h-cli")]
pub struct S04PosOnly {
    /// DOC_S04PosOnly_pos_one explains this item
    pos_one: String,
    /// DOC_S04PosOnly_pos_two explains this item
    pos_two: i64,
}
impl Shape for S04PosOnly {
    fn grammar() -> Grammar {
        Grammar {
            name: "S04PosOnly",
            doc: vec![],
            opts: vec![],
            pos: vec![p("pos_one", true, Ty::Str).d(&["DOC_S04PosOnly_pos_one"]), p("pos_two", true, INT_I64).d(&["DOC_S04PosOnly_pos_two"])],
            sub: None,
            help: help::<Self>(),
        }
    }
    fn to_val(&self) -> Val {
        Val {
            opts: vec![],
            pos: vec![Some(s(&self.pos_one)), Some(i(self.pos_two))],
            sub: None,
        }
    }
}

// ---- S05 -----------------------------------------------------------------------------------
#[derive(ArgParse)]
#[cli(help_path = "h-cli")]
pub struct S05PosOptLast {
    /// DOC_S05PosOptLast_pos_one explains this item
    pub pos_one: String,
    pub(crate) pos_two: i64,
    /// DOC_S05PosOptLast_pos_three explains this item
    pos_three: Option<usize>,
}
impl Shape for S05PosOptLast {
    fn grammar() -> Grammar {
        Grammar {
            name: "S05PosOptLast",
            doc: vec![],
            opts: vec![],
            pos: vec![
                p("pos_one", true, Ty::Str).d(&["DOC_S05PosOptLast_pos_one"]),
                p("pos_two", true, INT_I64),
                p("pos_three", false, INT_USIZE).d(&["DOC_S05PosOptLast_pos_three"]),
            ],
            sub: None,
            help: help::<Self>(),
        }
    }
    fn to_val(&self) -> Val {
        Val {
            opts: vec![],
            pos: vec![
                Some(s(&self.pos_one)),
                Some(i(self.pos_two)),
                self.pos_three.map(|x| Sc::I(x as i128)),
            ],
            sub: None,
        }
    }
}

// ---- S06 -----------------------------------------------------------------------------------
#[derive(ArgParse)]
#[cli(help_path = "h-cli, run")]
pub struct S06StrKinds {
    /// DOC_S06StrKinds_opt_str explains this item
    #[cli(short = "a")]
    opt_str: Option<&'static str>,
    /// DOC_S06StrKinds_opt_unix explains this item
    #[cli(short = "b")]
    opt_unix: Option<&'static UnixStr>,
    #[cli(short = "c")]
    rep_str: Vec<&'static str>,
    /// DOC_S06StrKinds_rep_unix explains this item
    #[cli(short = "d")]
    rep_unix: Vec<&'static UnixStr>,
}
impl Shape for S06StrKinds {
    fn grammar() -> Grammar {
        Grammar {
            name: "S06StrKinds",
            doc: vec![],
            opts: vec![
                o(&["-a"], Kind::Opt, Ty::Str).d(&["DOC_S06StrKinds_opt_str"]),
                o(&["-b"], Kind::Opt, Ty::Unix).d(&["DOC_S06StrKinds_opt_unix"]),
                o(&["-c"], Kind::Rep, Ty::Str),
                o(&["-d"], Kind::Rep, Ty::Unix).d(&["DOC_S06StrKinds_rep_unix"]),
            ],
            pos: vec![],
            sub: None,
            help: help::<Self>(),
        }
    }
    fn to_val(&self) -> Val {
        Val {
            opts: vec![
                FV::One(self.opt_str.map(s)),
                FV::One(self.opt_unix.map(u)),
                FV::Many(self.rep_str.iter().map(|x| s(x)).collect()),
                FV::Many(self.rep_unix.iter().map(|x| u(x)).collect()),
            ],
            pos: vec![],
            sub: None,
        }
    }
}

// ---- S07 -----------------------------------------------------------------------------------
#[derive(ArgParse)]
#[cli(help_path = "h-cli, list")]
pub struct S07Owned {
    /// DOC_S07Owned_opt_string explains this item
    #[cli(long = "opt-string")]
    opt_string: Option<String>,
    /// DOC_S07Owned_rep_unix_string explains this item
    #[cli(long = "rep")]
    rep_unix_string: Vec<UnixString>,
    /// DOC_S07Owned_required_string_L1 explains this item
    /// DOC_S07Owned_required_string_L2 explains this item
    #[cli(long = "req")]
    required_string: String,
}
impl Shape for S07Owned {
    fn grammar() -> Grammar {
        Grammar {
            name: "S07Owned",
            doc: vec![],
            opts: vec![
                o(&["--opt-string"], Kind::Opt, Ty::Str).d(&["DOC_S07Owned_opt_string"]),
                o(&["--rep"], Kind::Rep, Ty::Str).d(&["DOC_S07Owned_rep_unix_string"]),
                o(&["--req"], Kind::Req, Ty::Str).d(&["DOC_S07Owned_required_string_L1", "DOC_S07Owned_required_string_L2"]),
            ],
            pos: vec![],
            sub: None,
            help: help::<Self>(),
        }
    }
    fn to_val(&self) -> Val {
        Val {
            opts: vec![
                FV::One(self.opt_string.as_deref().map(s)),
                FV::Many(self.rep_unix_string.iter().map(|x| u(x)).collect()),
                FV::One(Some(s(&self.required_string))),
            ],
            pos: vec![],
            sub: None,
        }
    }
}

// ---- S08 -----------------------------------------------------------------------------------
/// DOC_S08Mixed_struct about this tool
#[derive(ArgParse)]
#[cli(help_path = "h-cli, mixed")]
pub struct S08Mixed {
    /// DOC_S08Mixed_target_L1 explains this item
    /// DOC_S08Mixed_target_L2 explains this item
    /// DOC_S08Mixed_target_L3 explains this item
    target: &'static UnixStr,
    /// DOC_S08Mixed_verbose explains this item
    #[cli(short = "v", long = "verbose")]
    verbose: bool,
    /// DOC_S08Mixed_num explains this item
    #[cli(short = "n", long = "num")]
    num: i64,
    /// DOC_S08Mixed_tags explains this item
    #[cli(long = "tag")]
    tags: Vec<String>,
    /// DOC_S08Mixed_label explains this item
    label: Option<&'static str>,
}
impl Shape for S08Mixed {
    fn grammar() -> Grammar {
        Grammar {
            name: "S08Mixed",
            doc: vec!["DOC_S08Mixed_struct"],
            opts: vec![
                o(&["-v", "--verbose"], Kind::Flag, Ty::Str).d(&["DOC_S08Mixed_verbose"]),
                o(&["-n", "--num"], Kind::Req, INT_I64).d(&["DOC_S08Mixed_num"]),
                o(&["--tag"], Kind::Rep, Ty::Str).d(&["DOC_S08Mixed_tags"]),
            ],
            pos: vec![p("target", true, Ty::Unix).d(&["DOC_S08Mixed_target_L1", "DOC_S08Mixed_target_L2", "DOC_S08Mixed_target_L3"]), p("label", false, Ty::Str).d(&["DOC_S08Mixed_label"])],
            sub: None,
            help: help::<Self>(),
        }
    }
    fn to_val(&self) -> Val {
        Val {
            opts: vec![
                FV::Flag(self.verbose),
                FV::One(Some(i(self.num))),
                FV::Many(self.tags.iter().map(|x| s(x)).collect()),
            ],
            pos: vec![Some(u(self.target)), self.label.map(s)],
            sub: None,
        }
    }
}

// ---- S09 -----------------------------------------------------------------------------------
#[derive(ArgParse)]
#[cli(help_path = "h-cli, custom")]
pub struct S09Custom {
    /// DOC_S09Custom_color explains this item
    #[cli(long = "color")]
    color: Color,
    /// DOC_S09Custom_level explains this item
    #[cli(long = "level")]
    level: Option<Level>,
    /// DOC_S09Custom_small explains this item
    #[cli(short = "x")]
    small: Option<u8>,
    /// DOC_S09Custom_shade explains this item
    shade: Option<Color>,
}
impl Shape for S09Custom {
    fn grammar() -> Grammar {
        Grammar {
            name: "S09Custom",
            doc: vec![],
            opts: vec![
                o(&["--color"], Kind::Req, COLOR).d(&["DOC_S09Custom_color"]),
                o(&["--level"], Kind::Opt, LEVEL).d(&["DOC_S09Custom_level"]),
                o(&["-x"], Kind::Opt, INT_U8).d(&["DOC_S09Custom_small"]),
            ],
            pos: vec![p("shade", false, COLOR).d(&["DOC_S09Custom_shade"])],
            sub: None,
            help: help::<Self>(),
        }
    }
    fn to_val(&self) -> Val {
        Val {
            opts: vec![
                FV::One(Some(col(self.color))),
                FV::One(self.level.map(lev)),
                FV::One(self.small.map(i)),
            ],
            pos: vec![self.shade.map(col)],
            sub: None,
        }
    }
}

// ---- S10 -----------------------------------------------------------------------------------
#[derive(ArgParse)]
pub struct S10ManyOpts {
    /// DOC_S10ManyOpts_alpha explains this item
    #[cli(short = "a")]
    alpha: i32,
    /// DOC_S10ManyOpts_beta explains this item
    #[cli(short = "b")]
    beta: Option<i64>,
    #[cli(short = "c")]
    cflag: bool,
    /// DOC_S10ManyOpts_delta explains this item
    #[cli(short = "d", long = "delta")]
    delta: Option<&'static str>,
    /// DOC_S10ManyOpts_eps explains this item
    #[cli(long = "eps")]
    eps: Vec<u8>,
    /// DOC_S10ManyOpts_fflag explains this item
    #[cli(short = "f")]
    fflag: bool,
    #[cli(long = "gamma")]
    gamma: Option<i128>,
}
impl Shape for S10ManyOpts {
    fn grammar() -> Grammar {
        Grammar {
            name: "S10ManyOpts",
            doc: vec![],
            opts: vec![
                o(&["-a"], Kind::Req, INT_I32).d(&["DOC_S10ManyOpts_alpha"]),
                o(&["-b"], Kind::Opt, INT_I64).d(&["DOC_S10ManyOpts_beta"]),
                o(&["-c"], Kind::Flag, Ty::Str),
                o(&["-d", "--delta"], Kind::Opt, Ty::Str).d(&["DOC_S10ManyOpts_delta"]),
                o(&["--eps"], Kind::Rep, INT_U8).d(&["DOC_S10ManyOpts_eps"]),
                o(&["-f"], Kind::Flag, Ty::Str).d(&["DOC_S10ManyOpts_fflag"]),
                o(&["--gamma"], Kind::Opt, INT_I128),
            ],
            pos: vec![],
            sub: None,
            help: help::<Self>(),
        }
    }
    fn to_val(&self) -> Val {
        Val {
            opts: vec![
                FV::One(Some(i(self.alpha))),
                FV::One(self.beta.map(i)),
                FV::Flag(self.cflag),
                FV::One(self.delta.map(s)),
                FV::Many(self.eps.iter().map(|x| i(*x)).collect()),
                FV::Flag(self.fflag),
                FV::One(self.gamma.map(Sc::I)),
            ],
            pos: vec![],
            sub: None,
        }
    }
}

// ---- S11 -----------------------------------------------------------------------------------
/// DOC_S11SubRequired_struct about this tool
#[derive(ArgParse)]
#[cli(help_path = "h-cli")]
pub struct S11SubRequired {
    /// DOC_S11SubRequired_sc explains this item
    #[cli(subcommand)]
    sc: Cmd11,
}
/// DOC_Cmd11_enum enum level text that the generator does not print
#[derive(Subcommand, Debug)]
pub enum Cmd11 {
    /// DOC_Cmd11_CmdOne_L1 what the command does
    /// DOC_Cmd11_CmdOne_L2 what the command does
    CmdOne,
    /// DOC_Cmd11_CmdTwo what the command does
    CmdTwo(Sub11Two),
    CmdThree,
    // tags with digits: a digit continues the word it follows (`ipv4`, `http2-get`)
    Ipv4,
    /// DOC_Cmd11_Http2Get what the command does
    Http2Get,
}
#[derive(ArgParse, Debug)]
#[cli(help_path = "h-cli, cmd-two")]
pub struct Sub11Two {
    /// DOC_Sub11Two_field1 explains this item
    #[cli(long = "field1")]
    field1: i32,
}
impl Shape for Sub11Two {
    fn grammar() -> Grammar {
        Grammar {
            name: "Sub11Two",
            doc: vec![],
            opts: vec![o(&["--field1"], Kind::Req, INT_I32).d(&["DOC_Sub11Two_field1"])],
            pos: vec![],
            sub: None,
            help: help::<Self>(),
        }
    }
    fn to_val(&self) -> Val {
        Val {
            opts: vec![FV::One(Some(i(self.field1)))],
            pos: vec![],
            sub: None,
        }
    }
}
impl Shape for S11SubRequired {
    fn grammar() -> Grammar {
        Grammar {
            name: "S11SubRequired",
            doc: vec!["DOC_S11SubRequired_struct"],
            opts: vec![],
            pos: vec![],
            sub: Some(Sub {
                optional: false,
                field_doc: vec!["DOC_S11SubRequired_sc"],
                var_docs: vec![
                    vec!["DOC_Cmd11_CmdOne_L1", "DOC_Cmd11_CmdOne_L2"],
                    vec!["DOC_Cmd11_CmdTwo"],
                    vec![],
                    vec![],
                    vec!["DOC_Cmd11_Http2Get"],
                ],
                vars: vec![
                    ("cmd-one", None),
                    ("cmd-two", Some(Sub11Two::grammar())),
                    ("cmd-three", None),
                    ("ipv4", None),
                    ("http2-get", None),
                ],
            }),
            help: help::<Self>(),
        }
    }
    fn to_val(&self) -> Val {
        Val {
            opts: vec![],
            pos: vec![],
            sub: Some(match &self.sc {
                Cmd11::CmdOne => (0, None),
                Cmd11::CmdTwo(t) => (1, Some(Box::new(t.to_val()))),
                Cmd11::CmdThree => (2, None),
                Cmd11::Ipv4 => (3, None),
                Cmd11::Http2Get => (4, None),
            }),
        }
    }
}

// ---- S12 -----------------------------------------------------------------------------------
#[derive(ArgParse, Debug)]
pub struct S12NestedOptional {
    #[cli(subcommand)]
    command: Cmd12,
}
/// DOC_Cmd12_enum enum level text that the generator does not print
#[derive(Subcommand, Debug)]
pub enum Cmd12 {
    /// DOC_Cmd12_MyTag what the command does
    MyTag(Nest12),
}
#[derive(ArgParse, Debug)]
pub struct Nest12 {
    /// DOC_Nest12_inner explains this item
    #[cli(subcommand)]
    inner: Option<Inner12>,
}
/// DOC_Inner12_enum enum level text that the generator does not print
#[derive(Subcommand, Debug)]
pub enum Inner12 {
    /// DOC_Inner12_A what the command does
    A,
    B,
}
impl Shape for Nest12 {
    fn grammar() -> Grammar {
        Grammar {
            name: "Nest12",
            doc: vec![],
            opts: vec![],
            pos: vec![],
            sub: Some(Sub {
                optional: true,
                field_doc: vec!["DOC_Nest12_inner"],
                var_docs: vec![vec!["DOC_Inner12_A"], vec![]],
                vars: vec![("a", None), ("b", None)],
            }),
            help: help::<Self>(),
        }
    }
    fn to_val(&self) -> Val {
        Val {
            opts: vec![],
            pos: vec![],
            sub: self.inner.as_ref().map(|x| match x {
                Inner12::A => (0, None),
                Inner12::B => (1, None),
            }),
        }
    }
}
impl Shape for S12NestedOptional {
    fn grammar() -> Grammar {
        Grammar {
            name: "S12NestedOptional",
            doc: vec![],
            opts: vec![],
            pos: vec![],
            sub: Some(Sub {
                optional: false,
                field_doc: vec![],
                var_docs: vec![vec!["DOC_Cmd12_MyTag"]],
                vars: vec![("my-tag", Some(Nest12::grammar()))],
            }),
            help: help::<Self>(),
        }
    }
    fn to_val(&self) -> Val {
        let Cmd12::MyTag(n) = &self.command;
        Val {
            opts: vec![],
            pos: vec![],
            sub: Some((0, Some(Box::new(n.to_val())))),
        }
    }
}

// ---- S13 -----------------------------------------------------------------------------------
/// DOC_S13Complex_struct_L1 about this tool
/// DOC_S13Complex_struct_L2 about this tool
#[derive(ArgParse, Debug)]
#[cli(help_path = "h-cli")]
pub struct S13Complex {
    /// DOC_S13Complex_my_field explains this item
    #[cli(long = "my-field")]
    my_field: i32,
    /// DOC_S13Complex_my_field_has_short explains this item
    #[cli(short = "s", long = "my-field-has-short")]
    my_field_has_short: String,
    #[cli(long = "long-field")]
    my_field_has_long_remap: &'static UnixStr,
    /// DOC_S13Complex_my_field_has_double_remap explains this item
    #[cli(short = "c", long = "long-double")]
    my_field_has_double_remap: &'static str,
    /// DOC_S13Complex_subcommand explains this item
    #[cli(subcommand)]
    subcommand: Cmd13,
}
/// DOC_Cmd13_enum enum level text that the generator does not print
#[derive(Subcommand, Debug)]
pub enum Cmd13 {
    /// DOC_Cmd13_Run_L1 what the command does
    /// DOC_Cmd13_Run_L2 what the command does
    Run(Run13),
    /// DOC_Cmd13_List what the command does
    List(List13),
    /// DOC_Cmd13_Other what the command does
    Other(Other13),
    /// DOC_Cmd13_Arg what the command does
    Arg(Arg13),
}
/// DOC_Run13_struct about this tool
#[derive(ArgParse, Debug)]
#[cli(help_path = "h-cli, run")]
pub struct Run13 {
    /// DOC_Run13_arg_has_opt_str explains this item
    #[cli(short = "a")]
    arg_has_opt_str: Option<&'static str>,
    #[cli(short = "b")]
    arg_has_opt_unix_str: Option<&'static UnixStr>,
    /// DOC_Run13_arg_has_rep_str explains this item
    #[cli(short = "c")]
    arg_has_rep_str: Vec<&'static str>,
    /// DOC_Run13_arg_has_rep_unix_str explains this item
    #[cli(short = "d")]
    arg_has_rep_unix_str: Vec<&'static UnixStr>,
}
#[derive(ArgParse, Debug)]
#[cli(help_path = "h-cli, list")]
pub struct List13 {
    /// DOC_List13_arg_has_opt_string explains this item
    #[cli(long = "arg-has-opt-string")]
    arg_has_opt_string: Option<String>,
    /// DOC_List13_arg_has_rep_unix_string explains this item
    #[cli(long = "rep")]
    arg_has_rep_unix_string: Vec<UnixString>,
    /// DOC_List13_arg_has_required_string explains this item
    #[cli(long = "req")]
    arg_has_required_string: String,
}
#[derive(ArgParse, Debug)]
#[cli(help_path = "h-cli, other")]
pub struct Other13 {
    /// DOC_Other13_required_field explains this item
    #[cli(long = "required-field")]
    required_field: i32,
    #[cli(subcommand)]
    subc_opt: Option<OtherSub13>,
}
#[derive(ArgParse, Debug)]
#[cli(help_path = "h-cli, arg")]
pub struct Arg13 {
    /// DOC_Arg13_subc_arg_L1 explains this item
    /// DOC_Arg13_subc_arg_L2 explains this item
    subc_arg: String,
    /// DOC_Arg13_opt explains this item
    #[cli(short = "o")]
    opt: Option<i32>,
}
/// DOC_OtherSub13_enum enum level text that the generator does not print
#[derive(Subcommand, Debug)]
pub enum OtherSub13 {
    /// DOC_OtherSub13_OnlyOneOption what the command does
    OnlyOneOption(OptStruct13),
}
#[derive(ArgParse, Debug)]
#[cli(help_path = "h-cli, other, only-one-option")]
pub struct OptStruct13 {
    /// DOC_OptStruct13_only_one_opt_owned_field explains this item
    #[cli(long = "only-one-opt-owned-field")]
    only_one_opt_owned_field: Option<i128>,
}
impl Shape for Run13 {
    fn grammar() -> Grammar {
        Grammar {
            name: "Run13",
            doc: vec!["DOC_Run13_struct"],
            opts: vec![
                o(&["-a"], Kind::Opt, Ty::Str).d(&["DOC_Run13_arg_has_opt_str"]),
                o(&["-b"], Kind::Opt, Ty::Unix),
                o(&["-c"], Kind::Rep, Ty::Str).d(&["DOC_Run13_arg_has_rep_str"]),
                o(&["-d"], Kind::Rep, Ty::Unix).d(&["DOC_Run13_arg_has_rep_unix_str"]),
            ],
            pos: vec![],
            sub: None,
            help: help::<Self>(),
        }
    }
    fn to_val(&self) -> Val {
        Val {
            opts: vec![
                FV::One(self.arg_has_opt_str.map(s)),
                FV::One(self.arg_has_opt_unix_str.map(u)),
                FV::Many(self.arg_has_rep_str.iter().map(|x| s(x)).collect()),
                FV::Many(self.arg_has_rep_unix_str.iter().map(|x| u(x)).collect()),
            ],
            pos: vec![],
            sub: None,
        }
    }
}
impl Shape for List13 {
    fn grammar() -> Grammar {
        Grammar {
            name: "List13",
            doc: vec![],
            opts: vec![
                o(&["--arg-has-opt-string"], Kind::Opt, Ty::Str).d(&["DOC_List13_arg_has_opt_string"]),
                o(&["--rep"], Kind::Rep, Ty::Str).d(&["DOC_List13_arg_has_rep_unix_string"]),
                o(&["--req"], Kind::Req, Ty::Str).d(&["DOC_List13_arg_has_required_string"]),
            ],
            pos: vec![],
            sub: None,
            help: help::<Self>(),
        }
    }
    fn to_val(&self) -> Val {
        Val {
            opts: vec![
                FV::One(self.arg_has_opt_string.as_deref().map(s)),
                FV::Many(self.arg_has_rep_unix_string.iter().map(|x| u(x)).collect()),
                FV::One(Some(s(&self.arg_has_required_string))),
            ],
            pos: vec![],
            sub: None,
        }
    }
}
impl Shape for OptStruct13 {
    fn grammar() -> Grammar {
        Grammar {
            name: "OptStruct13",
            doc: vec![],
            opts: vec![o(&["--only-one-opt-owned-field"], Kind::Opt, INT_I128).d(&["DOC_OptStruct13_only_one_opt_owned_field"])],
            pos: vec![],
            sub: None,
            help: help::<Self>(),
        }
    }
    fn to_val(&self) -> Val {
        Val {
            opts: vec![FV::One(self.only_one_opt_owned_field.map(Sc::I))],
            pos: vec![],
            sub: None,
        }
    }
}
impl Shape for Other13 {
    fn grammar() -> Grammar {
        Grammar {
            name: "Other13",
            doc: vec![],
            opts: vec![o(&["--required-field"], Kind::Req, INT_I32).d(&["DOC_Other13_required_field"])],
            pos: vec![],
            sub: Some(Sub {
                optional: true,
                field_doc: vec![],
                var_docs: vec![vec!["DOC_OtherSub13_OnlyOneOption"]],
                vars: vec![("only-one-option", Some(OptStruct13::grammar()))],
            }),
            help: help::<Self>(),
        }
    }
    fn to_val(&self) -> Val {
        Val {
            opts: vec![FV::One(Some(i(self.required_field)))],
            pos: vec![],
            sub: self.subc_opt.as_ref().map(|x| {
                let OtherSub13::OnlyOneOption(o) = x;
                (0, Some(Box::new(o.to_val())))
            }),
        }
    }
}
impl Shape for Arg13 {
    fn grammar() -> Grammar {
        Grammar {
            name: "Arg13",
            doc: vec![],
            opts: vec![o(&["-o"], Kind::Opt, INT_I32).d(&["DOC_Arg13_opt"])],
            pos: vec![p("subc_arg", true, Ty::Str).d(&["DOC_Arg13_subc_arg_L1", "DOC_Arg13_subc_arg_L2"])],
            sub: None,
            help: help::<Self>(),
        }
    }
    fn to_val(&self) -> Val {
        Val {
            opts: vec![FV::One(self.opt.map(i))],
            pos: vec![Some(s(&self.subc_arg))],
            sub: None,
        }
    }
}
impl Shape for S13Complex {
    fn grammar() -> Grammar {
        Grammar {
            name: "S13Complex",
            doc: vec!["DOC_S13Complex_struct_L1", "DOC_S13Complex_struct_L2"],
            opts: vec![
                o(&["--my-field"], Kind::Req, INT_I32).d(&["DOC_S13Complex_my_field"]),
                o(&["-s", "--my-field-has-short"], Kind::Req, Ty::Str).d(&["DOC_S13Complex_my_field_has_short"]),
                o(&["--long-field"], Kind::Req, Ty::Unix),
                o(&["-c", "--long-double"], Kind::Req, Ty::Str).d(&["DOC_S13Complex_my_field_has_double_remap"]),
            ],
            pos: vec![],
            sub: Some(Sub {
                optional: false,
                field_doc: vec!["DOC_S13Complex_subcommand"],
                var_docs: vec![vec!["DOC_Cmd13_Run_L1", "DOC_Cmd13_Run_L2"], vec!["DOC_Cmd13_List"], vec!["DOC_Cmd13_Other"], vec!["DOC_Cmd13_Arg"]],
                vars: vec![
                    ("run", Some(Run13::grammar())),
                    ("list", Some(List13::grammar())),
                    ("other", Some(Other13::grammar())),
                    ("arg", Some(Arg13::grammar())),
                ],
            }),
            help: help::<Self>(),
        }
    }
    fn to_val(&self) -> Val {
        Val {
            opts: vec![
                FV::One(Some(i(self.my_field))),
                FV::One(Some(s(&self.my_field_has_short))),
                FV::One(Some(u(self.my_field_has_long_remap))),
                FV::One(Some(s(self.my_field_has_double_remap))),
            ],
            pos: vec![],
            sub: Some(match &self.subcommand {
                Cmd13::Run(x) => (0, Some(Box::new(x.to_val()))),
                Cmd13::List(x) => (1, Some(Box::new(x.to_val()))),
                Cmd13::Other(x) => (2, Some(Box::new(x.to_val()))),
                Cmd13::Arg(x) => (3, Some(Box::new(x.to_val()))),
            }),
        }
    }
}

// ---- S14 -----------------------------------------------------------------------------------
#[derive(ArgParse, Debug)]
#[cli(help_path = "h-cli, svc")]
pub struct S14OptSubWithOpts {
    /// DOC_S14OptSubWithOpts_quiet explains this item
    #[cli(short = "q")]
    quiet: bool,
    /// DOC_S14OptSubWithOpts_name explains this item
    #[cli(long = "name")]
    name: Option<&'static str>,
    /// DOC_S14OptSubWithOpts_cmd_L1 explains this item
    /// DOC_S14OptSubWithOpts_cmd_L2 explains this item
    #[cli(subcommand)]
    cmd: Option<Cmd14>,
}
/// DOC_Cmd14_enum enum level text that the generator does not print
#[derive(Subcommand, Debug)]
pub enum Cmd14 {
    /// DOC_Cmd14_Start what the command does
    Start(Start14),
    Stop,
    /// DOC_Cmd14_Status what the command does
    Status,
}
/// DOC_Start14_struct about this tool
#[derive(ArgParse, Debug)]
#[cli(help_path = "h-cli, svc, start")]
pub struct Start14 {
    /// DOC_Start14_path explains this item
    path: &'static UnixStr,
    /// DOC_Start14_port explains this item
    #[cli(short = "p")]
    port: Option<u16>,
}
impl Shape for Start14 {
    fn grammar() -> Grammar {
        Grammar {
            name: "Start14",
            doc: vec!["DOC_Start14_struct"],
            opts: vec![o(&["-p"], Kind::Opt, INT_U16).d(&["DOC_Start14_port"])],
            pos: vec![p("path", true, Ty::Unix).d(&["DOC_Start14_path"])],
            sub: None,
            help: help::<Self>(),
        }
    }
    fn to_val(&self) -> Val {
        Val {
            opts: vec![FV::One(self.port.map(i))],
            pos: vec![Some(u(self.path))],
            sub: None,
        }
    }
}
impl Shape for S14OptSubWithOpts {
    fn grammar() -> Grammar {
        Grammar {
            name: "S14OptSubWithOpts",
            doc: vec![],
            opts: vec![
                o(&["-q"], Kind::Flag, Ty::Str).d(&["DOC_S14OptSubWithOpts_quiet"]),
                o(&["--name"], Kind::Opt, Ty::Str).d(&["DOC_S14OptSubWithOpts_name"]),
            ],
            pos: vec![],
            sub: Some(Sub {
                optional: true,
                field_doc: vec!["DOC_S14OptSubWithOpts_cmd_L1", "DOC_S14OptSubWithOpts_cmd_L2"],
                var_docs: vec![vec!["DOC_Cmd14_Start"], vec![], vec!["DOC_Cmd14_Status"]],
                vars: vec![
                    ("start", Some(Start14::grammar())),
                    ("stop", None),
                    ("status", None),
                ],
            }),
            help: help::<Self>(),
        }
    }
    fn to_val(&self) -> Val {
        Val {
            opts: vec![FV::Flag(self.quiet), FV::One(self.name.map(s))],
            pos: vec![],
            sub: self.cmd.as_ref().map(|c| match c {
                Cmd14::Start(x) => (0, Some(Box::new(x.to_val()))),
                Cmd14::Stop => (1, None),
                Cmd14::Status => (2, None),
            }),
        }
    }
}

// ---- S15 -----------------------------------------------------------------------------------
#[derive(ArgParse)]
pub struct S15BoolsOnly {
    /// DOC_S15BoolsOnly_aflag explains this item
    #[cli(short = "a")]
    aflag: bool,
    #[cli(short = "b", long = "bee")]
    bflag: bool,
    /// DOC_S15BoolsOnly_cflag explains this item
    #[cli(long = "cee")]
    cflag: bool,
}
impl Shape for S15BoolsOnly {
    fn grammar() -> Grammar {
        Grammar {
            name: "S15BoolsOnly",
            doc: vec![],
            opts: vec![
                o(&["-a"], Kind::Flag, Ty::Str).d(&["DOC_S15BoolsOnly_aflag"]),
                o(&["-b", "--bee"], Kind::Flag, Ty::Str),
                o(&["--cee"], Kind::Flag, Ty::Str).d(&["DOC_S15BoolsOnly_cflag"]),
            ],
            pos: vec![],
            sub: None,
            help: help::<Self>(),
        }
    }
    fn to_val(&self) -> Val {
        Val {
            opts: vec![
                FV::Flag(self.aflag),
                FV::Flag(self.bflag),
                FV::Flag(self.cflag),
            ],
            pos: vec![],
            sub: None,
        }
    }
}

// ---- S16 -----------------------------------------------------------------------------------
// Literals declared with upper case / underscores. The derive normalises option literals to
// lower-case kebab-case (the help text shows the normalised form), so the grammar below uses the
// normalised literals; what happens to the literal exactly as written is recorded as an
// observation by the harness (mode `observe`), not judged.
#[derive(ArgParse)]
pub struct S16Normalised {
    /// DOC_S16Normalised_verbose explains this item
    #[cli(short = "V", long = "Verbose_Mode")]
    verbose: bool,
    /// DOC_S16Normalised_count explains this item
    #[cli(short = "N")]
    count: Option<u8>,
}
impl Shape for S16Normalised {
    fn grammar() -> Grammar {
        Grammar {
            name: "S16Normalised",
            doc: vec![],
            opts: vec![
                o(&["-v", "--verbose-mode"], Kind::Flag, Ty::Str).d(&["DOC_S16Normalised_verbose"]),
                o(&["-n"], Kind::Opt, INT_U8).d(&["DOC_S16Normalised_count"]),
            ],
            pos: vec![],
            sub: None,
            help: help::<Self>(),
        }
    }
    fn to_val(&self) -> Val {
        Val {
            opts: vec![FV::Flag(self.verbose), FV::One(self.count.map(i))],
            pos: vec![],
            sub: None,
        }
    }
}

// ---- S17 -----------------------------------------------------------------------------------
/// DOC_S17Echo_struct about this tool
#[derive(ArgParse)]
#[cli(help_path = "h-cli, echo")]
pub struct S17Echo {
    /// DOC_S17Echo_echo explains this item
    #[cli(long = "echo")]
    echo: Option<Echo>,
    #[cli(short = "e")]
    many: Vec<Echo>,
    /// DOC_S17Echo_word explains this item
    word: Option<Echo>,
}
impl Shape for S17Echo {
    fn grammar() -> Grammar {
        Grammar {
            name: "S17Echo",
            doc: vec!["DOC_S17Echo_struct"],
            opts: vec![
                o(&["--echo"], Kind::Opt, Ty::Echo).d(&["DOC_S17Echo_echo"]),
                o(&["-e"], Kind::Rep, Ty::Echo),
            ],
            pos: vec![p("word", false, Ty::Echo).d(&["DOC_S17Echo_word"])],
            sub: None,
            help: help::<Self>(),
        }
    }
    fn to_val(&self) -> Val {
        Val {
            opts: vec![
                FV::One(self.echo.as_ref().map(|e| s(&e.0))),
                FV::Many(self.many.iter().map(|e| s(&e.0)).collect()),
            ],
            pos: vec![self.word.as_ref().map(|e| s(&e.0))],
            sub: None,
        }
    }
}

// ---- S18 -----------------------------------------------------------------------------------
// Documented subcommand field declared BEFORE the options (documented and undocumented ones).
/// DOC_S18SubFirst_struct sync tool
#[derive(ArgParse)]
#[cli(help_path = "h-cli, sync")]
pub struct S18SubFirst {
    /// DOC_S18SubFirst_action which action to run, see the command list
    #[cli(subcommand)]
    action: Cmd18,
    #[cli(short = "j", long = "jobs")]
    jobs: Option<u8>,
    /// DOC_S18SubFirst_dry_run only print what would be done
    #[cli(long = "dry-run")]
    dry_run: bool,
}
/// DOC_Cmd18_enum not printed
#[derive(Subcommand, Debug)]
pub enum Cmd18 {
    /// DOC_Cmd18_Push send
    Push,
    Pull,
    /// DOC_Cmd18_MoveAll_L1 DANGEROUS also delete the sources
    /// DOC_Cmd18_MoveAll_L2 second line
    MoveAll(Move18),
}
#[derive(ArgParse, Debug)]
#[cli(help_path = "h-cli, sync, move-all")]
pub struct Move18 {
    /// DOC_Move18_force do not ask
    #[cli(short = "f")]
    force: bool,
}
impl Shape for Move18 {
    fn grammar() -> Grammar {
        Grammar {
            name: "Move18",
            doc: vec![],
            opts: vec![o(&["-f"], Kind::Flag, Ty::Str).d(&["DOC_Move18_force"])],
            pos: vec![],
            sub: None,
            help: help::<Self>(),
        }
    }
    fn to_val(&self) -> Val {
        Val {
            opts: vec![FV::Flag(self.force)],
            pos: vec![],
            sub: None,
        }
    }
}
impl Shape for S18SubFirst {
    fn grammar() -> Grammar {
        Grammar {
            name: "S18SubFirst",
            doc: vec!["DOC_S18SubFirst_struct"],
            opts: vec![
                o(&["-j", "--jobs"], Kind::Opt, INT_U8),
                o(&["--dry-run"], Kind::Flag, Ty::Str).d(&["DOC_S18SubFirst_dry_run"]),
            ],
            pos: vec![],
            sub: Some(Sub {
                optional: false,
                field_doc: vec!["DOC_S18SubFirst_action"],
                var_docs: vec![
                    vec!["DOC_Cmd18_Push"],
                    vec![],
                    vec!["DOC_Cmd18_MoveAll_L1", "DOC_Cmd18_MoveAll_L2"],
                ],
                vars: vec![
                    ("push", None),
                    ("pull", None),
                    ("move-all", Some(Move18::grammar())),
                ],
            }),
            help: help::<Self>(),
        }
    }
    fn to_val(&self) -> Val {
        Val {
            opts: vec![FV::One(self.jobs.map(i)), FV::Flag(self.dry_run)],
            pos: vec![],
            sub: Some(match &self.action {
                Cmd18::Push => (0, None),
                Cmd18::Pull => (1, None),
                Cmd18::MoveAll(m) => (2, Some(Box::new(m.to_val()))),
            }),
        }
    }
}

// ---- S19 -----------------------------------------------------------------------------------
// Documented (two lines) optional subcommand field declared BETWEEN option fields; the field
// after it is documented, the one after that is not.
#[derive(ArgParse)]
#[cli(help_path = "h-cli, between")]
pub struct S19SubBetween {
    /// DOC_S19SubBetween_first leading option
    #[cli(short = "a", long = "first")]
    first: Option<i32>,
    /// DOC_S19SubBetween_mode_L1 what to do
    /// DOC_S19SubBetween_mode_L2 more about what to do
    #[cli(subcommand)]
    mode: Option<Cmd19>,
    /// DOC_S19SubBetween_second_L1 trailing option
    /// DOC_S19SubBetween_second_L2 more about the trailing option
    #[cli(long = "second")]
    second: Vec<&'static str>,
    #[cli(short = "t")]
    third: bool,
}
#[derive(Subcommand, Debug)]
pub enum Cmd19 {
    Fast,
    /// DOC_Cmd19_Slow take your time
    Slow,
}
impl Shape for S19SubBetween {
    fn grammar() -> Grammar {
        Grammar {
            name: "S19SubBetween",
            doc: vec![],
            opts: vec![
                o(&["-a", "--first"], Kind::Opt, INT_I32).d(&["DOC_S19SubBetween_first"]),
                o(&["--second"], Kind::Rep, Ty::Str)
                    .d(&["DOC_S19SubBetween_second_L1", "DOC_S19SubBetween_second_L2"]),
                o(&["-t"], Kind::Flag, Ty::Str),
            ],
            pos: vec![],
            sub: Some(Sub {
                optional: true,
                field_doc: vec!["DOC_S19SubBetween_mode_L1", "DOC_S19SubBetween_mode_L2"],
                var_docs: vec![vec![], vec!["DOC_Cmd19_Slow"]],
                vars: vec![("fast", None), ("slow", None)],
            }),
            help: help::<Self>(),
        }
    }
    fn to_val(&self) -> Val {
        Val {
            opts: vec![
                FV::One(self.first.map(i)),
                FV::Many(self.second.iter().map(|x| s(x)).collect()),
                FV::Flag(self.third),
            ],
            pos: vec![],
            sub: self.mode.as_ref().map(|m| match m {
                Cmd19::Fast => (0, None),
                Cmd19::Slow => (1, None),
            }),
        }
    }
}

// ---- S20 -----------------------------------------------------------------------------------
// Documented subcommand field FIRST and the very next field undocumented; last field documented.
#[derive(ArgParse)]
pub struct S20SubThenBare {
    /// DOC_S20SubThenBare_what pick one
    #[cli(subcommand)]
    what: Option<Cmd20>,
    #[cli(short = "k")]
    keep: bool,
    /// DOC_S20SubThenBare_level how much
    #[cli(long = "level")]
    level: Option<i64>,
}
#[derive(Subcommand, Debug)]
pub enum Cmd20 {
    /// DOC_Cmd20_One the first
    One,
    /// DOC_Cmd20_TwoWords the second
    TwoWords,
}
impl Shape for S20SubThenBare {
    fn grammar() -> Grammar {
        Grammar {
            name: "S20SubThenBare",
            doc: vec![],
            opts: vec![
                o(&["-k"], Kind::Flag, Ty::Str),
                o(&["--level"], Kind::Opt, INT_I64).d(&["DOC_S20SubThenBare_level"]),
            ],
            pos: vec![],
            sub: Some(Sub {
                optional: true,
                field_doc: vec!["DOC_S20SubThenBare_what"],
                var_docs: vec![vec!["DOC_Cmd20_One"], vec!["DOC_Cmd20_TwoWords"]],
                vars: vec![("one", None), ("two-words", None)],
            }),
            help: help::<Self>(),
        }
    }
    fn to_val(&self) -> Val {
        Val {
            opts: vec![FV::Flag(self.keep), FV::One(self.level.map(i))],
            pos: vec![],
            sub: self.what.as_ref().map(|m| match m {
                Cmd20::One => (0, None),
                Cmd20::TwoWords => (1, None),
            }),
        }
    }
}

// ==== declared names that collide with the built-in help spellings ==========================
// At HEAD the struct's own option arms come before the built-in `-h | --help` arm, so a field
// that claims one of the spellings wins; the other spelling stays a help request. That is the
// declared grammar encoded below (the reference tries option literals before help requests).

// ---- S21 -----------------------------------------------------------------------------------
/// DOC_S21HumanFlag_struct du style
#[derive(ArgParse)]
#[cli(help_path = "h-cli, du")]
pub struct S21HumanFlag {
    /// DOC_S21HumanFlag_human print sizes in powers of 1024
    #[cli(short = "h", long = "human-readable")]
    human: bool,
    #[cli(short = "s")]
    summarize: bool,
    /// DOC_S21HumanFlag_path where to look
    path: Option<&'static UnixStr>,
}
impl Shape for S21HumanFlag {
    fn grammar() -> Grammar {
        Grammar {
            name: "S21HumanFlag",
            doc: vec!["DOC_S21HumanFlag_struct"],
            opts: vec![
                o(&["-h", "--human-readable"], Kind::Flag, Ty::Str).d(&["DOC_S21HumanFlag_human"]),
                o(&["-s"], Kind::Flag, Ty::Str),
            ],
            pos: vec![p("path", false, Ty::Unix).d(&["DOC_S21HumanFlag_path"])],
            sub: None,
            help: help::<Self>(),
        }
    }
    fn to_val(&self) -> Val {
        Val {
            opts: vec![FV::Flag(self.human), FV::Flag(self.summarize)],
            pos: vec![self.path.map(u)],
            sub: None,
        }
    }
}

// ---- S22 -----------------------------------------------------------------------------------
// both built-in spellings claimed by valued fields: no help request is left at this level
#[derive(ArgParse)]
#[cli(help_path = "h-cli, connect")]
pub struct S22HostValued {
    /// DOC_S22HostValued_host where to connect
    #[cli(short = "h", long = "host")]
    host: String,
    #[cli(short = "p", long = "port")]
    port: Option<u16>,
    /// DOC_S22HostValued_topic topic to explain
    #[cli(long = "help")]
    topic: Option<&'static str>,
}
impl Shape for S22HostValued {
    fn grammar() -> Grammar {
        Grammar {
            name: "S22HostValued",
            doc: vec![],
            opts: vec![
                o(&["-h", "--host"], Kind::Req, Ty::Str).d(&["DOC_S22HostValued_host"]),
                o(&["-p", "--port"], Kind::Opt, INT_U16),
                o(&["--help"], Kind::Opt, Ty::Str).d(&["DOC_S22HostValued_topic"]),
            ],
            pos: vec![],
            sub: None,
            help: help::<Self>(),
        }
    }
    fn to_val(&self) -> Val {
        Val {
            opts: vec![
                FV::One(Some(s(&self.host))),
                FV::One(self.port.map(i)),
                FV::One(self.topic.map(s)),
            ],
            pos: vec![],
            sub: None,
        }
    }
}

// ---- S23 -----------------------------------------------------------------------------------
// `--help` claimed by a flag, `-h` stays the help request; short aliases that are the first
// letter of another field's long name
#[derive(ArgParse)]
pub struct S23LongHelpFlag {
    #[cli(long = "help")]
    help: bool,
    /// DOC_S23LongHelpFlag_verbose chatty
    #[cli(short = "v", long = "verbose")]
    verbose: bool,
    /// DOC_S23LongHelpFlag_version which version to use
    #[cli(long = "version")]
    version: Option<i32>,
    #[cli(short = "n", long = "name")]
    name: Option<&'static str>,
    #[cli(long = "number")]
    number: Vec<i64>,
    word: Option<String>,
}
impl Shape for S23LongHelpFlag {
    fn grammar() -> Grammar {
        Grammar {
            name: "S23LongHelpFlag",
            doc: vec![],
            opts: vec![
                o(&["--help"], Kind::Flag, Ty::Str),
                o(&["-v", "--verbose"], Kind::Flag, Ty::Str).d(&["DOC_S23LongHelpFlag_verbose"]),
                o(&["--version"], Kind::Opt, INT_I32).d(&["DOC_S23LongHelpFlag_version"]),
                o(&["-n", "--name"], Kind::Opt, Ty::Str),
                o(&["--number"], Kind::Rep, INT_I64),
            ],
            pos: vec![p("word", false, Ty::Str)],
            sub: None,
            help: help::<Self>(),
        }
    }
    fn to_val(&self) -> Val {
        Val {
            opts: vec![
                FV::Flag(self.help),
                FV::Flag(self.verbose),
                FV::One(self.version.map(i)),
                FV::One(self.name.map(s)),
                FV::Many(self.number.iter().map(|x| i(*x)).collect()),
            ],
            pos: vec![self.word.as_deref().map(s)],
            sub: None,
        }
    }
}

// ---- S24 -----------------------------------------------------------------------------------
// the same inside a struct with a subcommand (other branch of the generator) and inside the
// struct of a subcommand variant
#[derive(ArgParse)]
#[cli(help_path = "h-cli, img")]
pub struct S24HelpNamesWithCommand {
    /// DOC_S24HelpNamesWithCommand_human human readable sizes
    #[cli(short = "h", long = "human")]
    human: bool,
    #[cli(long = "help")]
    help_level: Option<i32>,
    /// DOC_S24HelpNamesWithCommand_cmd what to do
    #[cli(subcommand)]
    cmd: Cmd24,
}
#[derive(Subcommand, Debug)]
pub enum Cmd24 {
    /// DOC_Cmd24_Show display it
    Show(Show24),
    Hide,
    /// DOC_Cmd24_Resize change size
    Resize(Resize24),
}
#[derive(ArgParse, Debug)]
#[cli(help_path = "h-cli, img, show")]
pub struct Show24 {
    /// DOC_Show24_height rows
    #[cli(short = "h")]
    height: Option<u8>,
    #[cli(short = "w", long = "width")]
    width: Option<u8>,
    #[cli(long = "wide")]
    wide: bool,
    name: &'static str,
}
#[derive(ArgParse, Debug)]
#[cli(help_path = "h-cli, img, resize")]
pub struct Resize24 {
    /// DOC_Resize24_help print the old size too
    #[cli(short = "h", long = "help")]
    both: bool,
    #[cli(subcommand)]
    how: Option<How24>,
}
#[derive(Subcommand, Debug)]
pub enum How24 {
    Half,
    Double,
}
impl Shape for Show24 {
    fn grammar() -> Grammar {
        Grammar {
            name: "Show24",
            doc: vec![],
            opts: vec![
                o(&["-h"], Kind::Opt, INT_U8).d(&["DOC_Show24_height"]),
                o(&["-w", "--width"], Kind::Opt, INT_U8),
                o(&["--wide"], Kind::Flag, Ty::Str),
            ],
            pos: vec![p("name", true, Ty::Str)],
            sub: None,
            help: help::<Self>(),
        }
    }
    fn to_val(&self) -> Val {
        Val {
            opts: vec![
                FV::One(self.height.map(i)),
                FV::One(self.width.map(i)),
                FV::Flag(self.wide),
            ],
            pos: vec![Some(s(self.name))],
            sub: None,
        }
    }
}
impl Shape for Resize24 {
    fn grammar() -> Grammar {
        Grammar {
            name: "Resize24",
            doc: vec![],
            opts: vec![o(&["-h", "--help"], Kind::Flag, Ty::Str).d(&["DOC_Resize24_help"])],
            pos: vec![],
            sub: Some(Sub {
                optional: true,
                field_doc: vec![],
                var_docs: vec![vec![], vec![]],
                vars: vec![("half", None), ("double", None)],
            }),
            help: help::<Self>(),
        }
    }
    fn to_val(&self) -> Val {
        Val {
            opts: vec![FV::Flag(self.both)],
            pos: vec![],
            sub: self.how.as_ref().map(|h| match h {
                How24::Half => (0, None),
                How24::Double => (1, None),
            }),
        }
    }
}
impl Shape for S24HelpNamesWithCommand {
    fn grammar() -> Grammar {
        Grammar {
            name: "S24HelpNamesWithCommand",
            doc: vec![],
            opts: vec![
                o(&["-h", "--human"], Kind::Flag, Ty::Str).d(&["DOC_S24HelpNamesWithCommand_human"]),
                o(&["--help"], Kind::Opt, INT_I32),
            ],
            pos: vec![],
            sub: Some(Sub {
                optional: false,
                field_doc: vec!["DOC_S24HelpNamesWithCommand_cmd"],
                var_docs: vec![vec!["DOC_Cmd24_Show"], vec![], vec!["DOC_Cmd24_Resize"]],
                vars: vec![
                    ("show", Some(Show24::grammar())),
                    ("hide", None),
                    ("resize", Some(Resize24::grammar())),
                ],
            }),
            help: help::<Self>(),
        }
    }
    fn to_val(&self) -> Val {
        Val {
            opts: vec![FV::Flag(self.human), FV::One(self.help_level.map(i))],
            pos: vec![],
            sub: Some(match &self.cmd {
                Cmd24::Show(x) => (0, Some(Box::new(x.to_val()))),
                Cmd24::Hide => (1, None),
                Cmd24::Resize(x) => (2, Some(Box::new(x.to_val()))),
            }),
        }
    }
}
