//! C20: parsers derived with tiny-cli's ArgParse / Subcommand accept exactly their declared
//! grammar, round-trip every value assignment under every option order, reject what is outside
//! the grammar with an error value carrying the relevant help text, and never panic.
//!
//! modes (argv: <mode> <seed> <budget> <shard> <nshards> [secs]):
//!   sweep   per shape: <budget> value assignments x (all orders for <=5 units, 24 random beyond)
//!           x mutations of the rendered lines x help requests at every position
//!   random  per shape: <budget> argument vectors drawn from literals / numbers / arbitrary bytes
//!   align   multi-byte text at every alignment / length 80..=160 around the 128-byte cause buffer
//!   static  help text content per level + observations
//!   miri    small time-boxed mix of the above
mod model;
mod shapes;

use model::{Class, Expect, GenCfg, Grammar, Val};
use shapes::Shape;
use std::collections::BTreeMap;
use tiny_std::UnixStr;
use vh::Rng;

#[derive(Debug, Clone)]
enum Real {
    Ok(Val),
    Err {
        help: String,
        cause: String,
        display: String,
    },
    Panic(String),
}

struct Entry {
    name: &'static str,
    g: Grammar,
    parse: fn(&[Vec<u8>]) -> Real,
}

/// Hand the argument list to the derived parser exactly as `parse_cli_args` would: an iterator
/// of NUL-terminated `&'static UnixStr`. The backing storage lives until the parsed value has
/// been converted into an owned `Val` (the lifetime is only *claimed* to be 'static).
fn parse_real<T: Shape>(args: &[Vec<u8>]) -> Real {
    let arena: Vec<Box<[u8]>> = args
        .iter()
        .map(|a| {
            let mut v = Vec::with_capacity(a.len() + 1);
            v.extend_from_slice(a);
            v.push(0);
            v.into_boxed_slice()
        })
        .collect();
    let refs: Vec<&'static UnixStr> = arena
        .iter()
        .map(|b| unsafe {
            let s: &'static [u8] = std::slice::from_raw_parts(b.as_ptr(), b.len());
            UnixStr::from_bytes_unchecked(s)
        })
        .collect();
    let r = vh::catch(|| {
        let mut it = refs.into_iter();
        match T::arg_parse(&mut it) {
            Ok(t) => Real::Ok(t.to_val()),
            Err(e) => {
                // everything a caller would do with the error value
                let help = e.relevant_help.to_string();
                let cause = e.cause.to_string();
                let display = e.to_string();
                let _ = format!("{e:?}");
                let _ = e.cause.len();
                Real::Err {
                    help,
                    cause,
                    display,
                }
            }
        }
    });
    drop(arena);
    match r {
        Ok(x) => x,
        Err(p) => Real::Panic(p),
    }
}

macro_rules! entry {
    ($t:ty) => {
        Entry {
            name: <$t as Shape>::grammar().name,
            g: <$t as Shape>::grammar(),
            parse: parse_real::<$t>,
        }
    };
}

fn entries() -> Vec<Entry> {
    vec![
        entry!(shapes::S01ReqLong),
        entry!(shapes::S02Aliases),
        entry!(shapes::S03Packaging),
        entry!(shapes::S04PosOnly),
        entry!(shapes::S05PosOptLast),
        entry!(shapes::S06StrKinds),
        entry!(shapes::S07Owned),
        entry!(shapes::S08Mixed),
        entry!(shapes::S09Custom),
        entry!(shapes::S10ManyOpts),
        entry!(shapes::S11SubRequired),
        entry!(shapes::S12NestedOptional),
        entry!(shapes::S13Complex),
        entry!(shapes::S14OptSubWithOpts),
        entry!(shapes::S15BoolsOnly),
        entry!(shapes::S16Normalised),
        entry!(shapes::S17Echo),
        entry!(shapes::S18SubFirst),
        entry!(shapes::S19SubBetween),
        entry!(shapes::S20SubThenBare),
        // declared names colliding with the built-in help spellings
        entry!(shapes::S21HumanFlag),
        entry!(shapes::S22HostValued),
        entry!(shapes::S23LongHelpFlag),
        entry!(shapes::S24HelpNamesWithCommand),
        entry!(shapes::Show24),
        entry!(shapes::Resize24),
        // inner levels on their own as well
        entry!(shapes::Arg13),
        entry!(shapes::Other13),
        entry!(shapes::Start14),
    ]
}

fn cause_class(cause: &str) -> &'static str {
    if cause.is_empty() {
        "help"
    } else if cause.starts_with("Expected argument following") {
        "missing-value"
    } else if cause.starts_with("Failed to parse argument") {
        "not-utf8"
    } else if cause.starts_with("Failed to convert argument") {
        "malformed-value"
    } else if cause.starts_with("Unrecognized argument") {
        "unrecognized"
    } else if cause.starts_with("Required option") {
        "missing-required-option"
    } else if cause.starts_with("Required argument") {
        "missing-required-positional"
    } else if cause.starts_with("Required command") {
        "missing-required-command"
    } else if cause.starts_with("Cause unknown, too many characters") {
        "cause-overflow"
    } else {
        "other"
    }
}

fn args_json(args: &[Vec<u8>]) -> String {
    let mut s = String::from("[");
    for (i, a) in args.iter().enumerate() {
        if i > 0 {
            s.push(',');
        }
        if i >= 40 {
            s.push_str(&vh::js(&format!("...({} args)", args.len())));
            break;
        }
        s.push_str(&vh::jb(a));
    }
    s.push(']');
    s
}

#[derive(Default)]
struct St {
    evals: u64,
    viols: u64,
    c: BTreeMap<String, u64>,
    seen: std::collections::BTreeSet<u64>,
    tick: u64,
    sigs: BTreeMap<String, u64>,
    deadline: Option<std::time::Instant>,
}
impl St {
    fn bump(&mut self, k: &str) {
        *self.c.entry(k.to_string()).or_insert(0) += 1;
    }
    fn past(&self) -> bool {
        self.deadline.is_some_and(|d| std::time::Instant::now() >= d)
    }
    fn viol(&mut self, sig: &str, e: &Entry, args: &[Vec<u8>], ctx: &str, got: &str, want: &str) {
        self.viols += 1;
        let per_sig = self.sigs.entry(sig.to_string()).or_insert(0);
        *per_sig += 1;
        if *per_sig <= 3 && self.sigs.len() <= 200 {
            vh::viol(
                sig,
                &format!(
                    "{{\"shape\":{},\"case\":{},\"args\":{},\"got\":{},\"want\":{}}}",
                    vh::js(e.name),
                    vh::js(ctx),
                    args_json(args),
                    vh::js(got),
                    vh::js(want)
                ),
            );
        }
    }
    fn distinct(&mut self, parts: &[&str]) {
        let mut h = 0xcbf2_9ce4_8422_2325u64;
        for p in parts {
            for b in p.as_bytes() {
                h = (h ^ u64::from(*b)).wrapping_mul(0x0000_0100_0000_01B3);
            }
            h = h.rotate_left(9) ^ 0x2f;
        }
        if self.seen.insert(h) {
            vh::distinct(&parts.join("/"));
        }
    }
    fn flush(&self) {
        vh::eval(self.evals);
        for (k, v) in &self.c {
            vh::count(k, *v);
        }
    }
}

fn short(r: &Real) -> String {
    match r {
        Real::Ok(v) => format!("Ok({v:?})").chars().take(600).collect(),
        Real::Err { cause, help, .. } => format!(
            "Err(cause={:?}, help starts {:?})",
            cause.chars().take(160).collect::<String>(),
            help.chars().take(60).collect::<String>()
        ),
        Real::Panic(p) => format!("PANIC: {}", p.chars().take(300).collect::<String>()),
    }
}

/// Compare the real parser with the reference reading. `roundtrip` carries the value the line
/// was rendered from. Returns a coarse outcome name.
fn judge(st: &mut St, e: &Entry, args: &[Vec<u8>], ctx: &str, roundtrip: Option<&Val>) -> &'static str {
    let real = (e.parse)(args);
    let exp = model::reference(&e.g, args);
    st.evals += 1;
    st.tick += 1;
    if let Real::Panic(p) = &real {
        let top = ctx.split('/').next().unwrap_or("case");
        st.viol(
            &format!("C20/panic/{}/{top}", e.name),
            e,
            args,
            ctx,
            &format!("panic: {p}"),
            "an Ok or Err value",
        );
        return "panic";
    }
    if let Some(v) = roundtrip {
        // generator and reference are both mine: if they disagree the harness is wrong
        match &exp {
            Expect::Accept(x) if x == v => {}
            other => {
                vh::inconclusive(&format!(
                    "h_cli: reference disagrees with renderer for {} {}: {:?}",
                    e.name,
                    args_json(args),
                    other
                ));
                return "harness";
            }
        }
    }
    let outcome = match (&exp, &real) {
        (Expect::Accept(v), Real::Ok(x)) => {
            if x == v {
                "accepted"
            } else {
                let what = if roundtrip.is_some() { "roundtrip" } else { "accept" };
                st.viol(
                    &format!("C20/{what}/{}/wrong-value", e.name),
                    e,
                    args,
                    ctx,
                    &short(&real),
                    &format!("Ok({v:?})"),
                );
                "wrong-value"
            }
        }
        (Expect::Accept(v), Real::Err { cause, .. }) => {
            let what = if roundtrip.is_some() { "roundtrip" } else { "accept" };
            st.viol(
                &format!("C20/{what}/{}/rejected-{}", e.name, cause_class(cause)),
                e,
                args,
                ctx,
                &short(&real),
                &format!("Ok({v:?})"),
            );
            "rejected-valid"
        }
        (Expect::Reject { class, level, .. }, Real::Ok(_)) => {
            st.viol(
                &format!("C20/accepts-invalid/{}/{}", e.name, class.name()),
                e,
                args,
                ctx,
                &short(&real),
                &format!("Err ({} at level {level})", class.name()),
            );
            "accepted-invalid"
        }
        (
            Expect::Reject {
                class,
                level,
                visited,
            },
            Real::Err {
                help,
                cause,
                display,
            },
        ) => {
            let rc = cause_class(cause);
            let level_help = model::help_of(&e.g, level).unwrap_or("");
            let mut ok = true;
            if *class == Class::Help {
                // a help request met first must produce exactly the help of the level it was given at
                if help != level_help || !cause.is_empty() || display != level_help {
                    ok = false;
                    st.viol(
                        &format!("C20/help/{}/not-the-help-of-the-level", e.name),
                        e,
                        args,
                        ctx,
                        &format!("cause={cause:?} display={display:?}"),
                        &format!("display == help text of {level}: {level_help:?}"),
                    );
                }
            } else {
                if !visited
                    .iter()
                    .any(|l| model::help_of(&e.g, l).is_some_and(|h| h == help))
                {
                    ok = false;
                    st.viol(
                        &format!("C20/reject/{}/irrelevant-help-text", e.name),
                        e,
                        args,
                        ctx,
                        &format!("help={help:?}"),
                        &format!("help text of one of the levels {visited:?}"),
                    );
                }
                if cause.is_empty() {
                    ok = false;
                    st.viol(
                        &format!("C20/reject/{}/empty-cause-for-{}", e.name, class.name()),
                        e,
                        args,
                        ctx,
                        &short(&real),
                        "a cause (an empty cause denotes a help request)",
                    );
                }
                if !display.starts_with(help.as_str()) || !display.ends_with(cause.as_str()) {
                    ok = false;
                    st.viol(
                        &format!("C20/reject/{}/display-lacks-help-or-cause", e.name),
                        e,
                        args,
                        ctx,
                        &format!("{display:?}"),
                        "help text followed by cause",
                    );
                }
            }
            // agreement on the class / level is evidence, not a verdict (several defects may be present)
            if rc == class.name() {
                st.bump("reject_cause_class_agrees_with_reference");
            } else if rc == "cause-overflow" {
                st.bump("reject_cause_overflowed_128_byte_buffer");
            } else {
                st.bump("reject_cause_class_differs_from_reference");
                if std::env::var_os("H_CLI_SHOW_DIFF").is_some() {
                    eprintln!("DIFF {} {} ref={} real={rc} cause={cause:?}", e.name, args_json(args), class.name());
                }
            }
            if help == level_help {
                st.bump("reject_help_is_exactly_the_reference_level");
            }
            st.bump(&format!("rejected/{rc}"));
            if ok {
                "rejected"
            } else {
                "rejected-badly"
            }
        }
        (Expect::Unspecified, _) => {
            st.bump("repeated_single_option_or_command_only_panic_freedom_judged");
            "unspecified"
        }
        (_, Real::Panic(_)) => unreachable!(),
    };
    if st.tick % 9973 == 11 || st.tick == 5 {
        vh::sample(
            &format!(
                "{{\"shape\":{},\"case\":{},\"args\":{},\"reference\":{},\"parser\":{}}}",
                vh::js(e.name),
                vh::js(ctx),
                args_json(args),
                vh::js(&format!("{exp:?}").chars().take(300).collect::<String>()),
                vh::js(&short(&real))
            ),
            6,
        );
    }
    outcome
}

fn exp_name(g: &Grammar, args: &[Vec<u8>]) -> &'static str {
    match model::reference(g, args) {
        Expect::Accept(_) => "valid",
        Expect::Reject { class, .. } => class.name(),
        Expect::Unspecified => "unspecified",
    }
}

const MUTATIONS: [&str; 14] = [
    "aligned-multibyte-arg",
    "drop",
    "duplicate-arg",
    "duplicate-pair",
    "swap",
    "truncate",
    "unknown-option",
    "near-miss-option",
    "malformed-number",
    "stray-positional",
    "non-utf8",
    "empty-arg",
    "long-arg",
    "help",
];

fn mutate(kind: &str, line: &[Vec<u8>], g: &Grammar, r: &mut Rng, big: bool) -> Option<Vec<Vec<u8>>> {
    let n = line.len();
    let mut v = line.to_vec();
    let at = |r: &mut Rng, m: usize| r.below(m as u64) as usize;
    match kind {
        "drop" => {
            if n == 0 {
                return None;
            }
            v.remove(at(r, n));
        }
        "duplicate-arg" => {
            if n == 0 {
                return None;
            }
            let i = at(r, n);
            v.insert(i, line[i].clone());
        }
        "duplicate-pair" => {
            if n < 2 {
                return None;
            }
            let i = at(r, n - 1);
            let j = at(r, n + 1);
            v.insert(j, line[i + 1].clone());
            v.insert(j, line[i].clone());
        }
        "swap" => {
            if n < 2 {
                return None;
            }
            let i = at(r, n - 1);
            v.swap(i, i + 1);
        }
        "truncate" => {
            if n == 0 {
                return None;
            }
            v.truncate(at(r, n));
        }
        "unknown-option" => {
            let o = *r.pick(&["--nope", "-Z", "--", "-", "---x", "-hh", "--helpx", "--HELP", "-H"]);
            v.insert(at(r, n + 1), o.as_bytes().to_vec());
        }
        "near-miss-option" => {
            let mut lits = Vec::new();
            model::all_literals(g, &mut lits);
            if lits.is_empty() {
                return None;
            }
            let mut l = r.pick(&lits).clone();
            match r.below(5) {
                0 => {
                    l.pop();
                }
                1 => l.push(b'x'),
                2 => l.extend_from_slice(b"=1"),
                3 => l = l.to_ascii_uppercase(),
                _ => l.insert(0, b' '),
            }
            v.insert(at(r, n + 1), l);
        }
        "malformed-number" => {
            let idx: Vec<usize> = (0..n)
                .filter(|&i| model::parse_int(&line[i], i128::MIN, i128::MAX).is_some())
                .collect();
            if idx.is_empty() {
                return None;
            }
            let i = *r.pick(&idx);
            let bad: &[u8] = *r.pick(&[
                &b"12x"[..],
                b"",
                b"+",
                b"-",
                b" 5",
                b"5 ",
                b"0x10",
                b"1_000",
                b"1e3",
                b"1.0",
                "５".as_bytes(),
                b"340282366920938463463374607431768211456000",
                b"-340282366920938463463374607431768211456000",
                b"--5",
                b"\xff1",
            ]);
            v[i] = bad.to_vec();
        }
        "stray-positional" => {
            let w = *r.pick(&["stray", "extra-word", "0", "zzz"]);
            v.insert(at(r, n + 1), w.as_bytes().to_vec());
        }
        "non-utf8" => {
            if n == 0 {
                return None;
            }
            let i = at(r, n);
            v[i] = r.pick(&[vec![0xFFu8, 0xFE], vec![b'a', 0x80], vec![0xC3], vec![0xED, 0xA0, 0x80]]).clone();
        }
        "empty-arg" => {
            v.insert(at(r, n + 1), Vec::new());
        }
        "long-arg" => {
            // longer than the 128-byte cause buffer (and sometimes much longer)
            let len = match r.below(5) {
                0 => 120 + r.below(20) as usize,
                1 if big => 10 * 1024,
                // "Unrecognized argument: Ok(\"<arg>\\0\")" reaches 128 bytes at <arg> = 96 bytes
                2 => 88 + r.below(16) as usize,
                _ => 129 + r.below(400) as usize,
            };
            if r.chance(1, 6) {
                // multi-byte characters straddling the end of the buffer
                let s = "é".repeat(40 + r.below(12) as usize) + ["", "x", "xy"][r.below(3) as usize];
                v.insert(at(r, n + 1), s.into_bytes());
                return Some(v);
            }
            let c = *r.pick(&[b'q', b'-', 0xE9u8]);
            let mut a = vec![c; len];
            if r.chance(1, 2) {
                a[0] = b'-';
                a[1] = b'-';
            }
            v.insert(at(r, n + 1), a);
        }
        "aligned-multibyte-arg" => {
            // multi-byte text at a random alignment / length around the 128-byte cause buffer,
            // inserted or put in place of an existing argument
            let t = model::aligned_text(model::PADS[r.below(model::PADS.len() as u64) as usize], model::FILLERS[r.below(model::FILLERS.len() as u64) as usize].1, 80 + r.below(81) as usize);
            if n > 0 && r.chance(1, 2) {
                v[at(r, n)] = t;
            } else {
                v.insert(at(r, n + 1), t);
            }
        }
        "help" => {
            let h = *r.pick(&["-h", "--help"]);
            v.insert(at(r, n + 1), h.as_bytes().to_vec());
        }
        _ => return None,
    }
    Some(v)
}

fn perm_class(p: &[usize]) -> &'static str {
    if p.windows(2).all(|w| w[0] < w[1]) {
        "declared-order"
    } else if p.windows(2).all(|w| w[0] > w[1]) {
        "reversed"
    } else {
        "mixed"
    }
}
fn unit_bucket(n: usize) -> &'static str {
    match n {
        0 => "u0",
        1 => "u1",
        2..=3 => "u2-3",
        4..=5 => "u4-5",
        _ => "u6+",
    }
}

fn sweep_shape(st: &mut St, e: &Entry, r: &mut Rng, assignments: u64, cfg: &GenCfg, light: bool) {
    for _ in 0..assignments {
        if st.past() {
            return;
        }
        let rd = model::gen(&e.g, r, cfg);
        let n = rd.units.len();
        let perms: Vec<Vec<usize>> = if n <= 5 && !light {
            st.bump("assignments_with_all_orders");
            model::permutations(n)
        } else if n <= 3 {
            st.bump("assignments_with_all_orders");
            model::permutations(n)
        } else {
            st.bump("assignments_with_sampled_orders");
            let k = if light { 4 } else { 24 };
            let mut ps = vec![model::identity(n), (0..n).rev().collect()];
            ps.extend((0..k).map(|_| model::shuffle(r, n)));
            ps
        };
        let nperm = perms.len();
        for (pi, p) in perms.iter().enumerate() {
            let mut line = model::flatten(&rd.units, p);
            line.extend(rd.tail.iter().cloned());
            let ub = unit_bucket(n);
            let o = judge(st, e, &line, "roundtrip", Some(&rd.val));
            st.bump("roundtrip_parses");
            st.distinct(&[e.name, "roundtrip", ub, perm_class(p), o]);
            // mutate a few of the orders
            if pi == 0 || pi == nperm - 1 || pi == nperm / 2 {
                for kind in MUTATIONS {
                    let reps = if light { 1 } else { 2 };
                    for _ in 0..reps {
                        if let Some(m) = mutate(kind, &line, &e.g, r, cfg.big) {
                            let en = exp_name(&e.g, &m);
                            let o = judge(st, e, &m, &format!("mutation/{kind}"), None);
                            st.bump("mutation_parses");
                            st.distinct(&[e.name, "mutation", kind, en, o]);
                        }
                    }
                }
            }
            // a help request at every argument boundary of one order
            if pi == 0 {
                for at in 0..=line.len() {
                    let mut m = line.clone();
                    m.insert(at, if at % 2 == 0 { b"-h".to_vec() } else { b"--help".to_vec() });
                    let en = exp_name(&e.g, &m);
                    let o = judge(st, e, &m, "help-at-every-position", None);
                    st.bump("help_position_parses");
                    st.distinct(&[e.name, "help-at", en, o]);
                }
            }
        }
    }
}

fn random_vectors(st: &mut St, e: &Entry, r: &mut Rng, n: u64, big: bool) {
    let mut lits = Vec::new();
    model::all_literals(&e.g, &mut lits);
    lits.push(b"-h".to_vec());
    lits.push(b"--help".to_vec());
    for _ in 0..n {
        if st.past() {
            return;
        }
        let len = r.below(13) as usize;
        let mut line = Vec::with_capacity(len);
        for _ in 0..len {
            let a: Vec<u8> = match r.below(16) {
                0..=5 => r.pick(&lits).clone(),
                6 | 7 => {
                    let v = (r.next() as i64) >> r.below(64);
                    v.to_string().into_bytes()
                }
                8 => r.pick(&["red", "green", "blue", "low", "high", "Low", "purple"]).as_bytes().to_vec(),
                9 | 10 => {
                    let k = r.below(24) as usize;
                    (0..k).map(|_| 1 + r.below(255) as u8).collect()
                }
                11 => Vec::new(),
                12 => {
                    let k = 100 + r.below(200) as usize;
                    vec![*r.pick(&[b'-', b'a', 0xFFu8, 0xC3]); k]
                }
                13 if big => vec![b'w'; 10 * 1024],
                14 => model::aligned_text(model::PADS[r.below(model::PADS.len() as u64) as usize], model::FILLERS[r.below(model::FILLERS.len() as u64) as usize].1, 80 + r.below(81) as usize),
                _ => r.pick(&["word", "x", "héllo", "-", "--", "a b"]).as_bytes().to_vec(),
            };
            line.push(a);
        }
        let en = exp_name(&e.g, &line);
        let o = judge(st, e, &line, "random-vector", None);
        st.bump("random_vector_parses");
        st.distinct(&[e.name, "random", en, o]);
    }
}

/// Alignment sweep: every cause that quotes user text (unrecognized argument, conversion error
/// that echoes its input) is produced with multi-byte text at every offset relative to the
/// 128-byte cause buffer: ASCII pads of 0..=4 bytes x fillers of 2/3/4-byte characters and
/// mixtures x total lengths `lens`, placed alone, after / before a valid line, as the value of
/// every valued option, and in place of a number.
fn align_sweep(st: &mut St, e: &Entry, r: &mut Rng, lens: &[usize], shard: u64, nshards: u64) {
    let cfg = GenCfg { big: false };
    let rd = model::gen(&e.g, r, &cfg);
    let mut base = model::flatten(&rd.units, &model::identity(rd.units.len()));
    base.extend(rd.tail.iter().cloned());
    let valued: Vec<Vec<u8>> = e
        .g
        .opts
        .iter()
        .filter(|o| o.kind != model::Kind::Flag)
        .map(|o| o.lits[0].as_bytes().to_vec())
        .collect();
    let num_at = base
        .iter()
        .position(|a| model::parse_int(a, i128::MIN, i128::MAX).is_some());
    let mut k = 0u64;
    for &total in lens {
        for pad in model::PADS {
            for (fname, widths) in model::FILLERS {
                k += 1;
                if k % nshards != shard % nshards {
                    continue;
                }
                if st.past() {
                    return;
                }
                let t = model::aligned_text(pad, widths, total);
                let mut lines: Vec<(&str, Vec<Vec<u8>>)> = vec![("alone", vec![t.clone()])];
                let mut l = base.clone();
                l.push(t.clone());
                lines.push(("after-valid-line", l));
                // enough copies to run past every free positional of the level
                let mut l = base.clone();
                l.extend([t.clone(), t.clone(), t.clone(), t.clone()]);
                lines.push(("four-times-after-valid-line", l));
                lines.push(("four-times-alone", vec![t.clone(), t.clone(), t.clone(), t.clone()]));
                let mut l = vec![t.clone()];
                l.extend(base.iter().cloned());
                lines.push(("before-valid-line", l));
                for lit in &valued {
                    lines.push(("as-option-value", vec![lit.clone(), t.clone()]));
                    let mut l = base.clone();
                    l.push(lit.clone());
                    l.push(t.clone());
                    lines.push(("as-option-value-after-valid-line", l));
                }
                if let Some(i) = num_at {
                    let mut l = base.clone();
                    l[i] = t.clone();
                    lines.push(("in-place-of-number", l));
                }
                for (place, line) in lines {
                    let en = exp_name(&e.g, &line);
                    let o = judge(st, e, &line, &format!("align/{place}"), None);
                    st.bump("alignment_sweep_parses");
                    st.distinct(&[e.name, "align", fname, place, en, o]);
                }
            }
        }
    }
}

fn doc_words(line: &str) -> Vec<String> {
    line.split(|c: char| !(c.is_ascii_alphanumeric() || c == '_'))
        .filter(|w| w.starts_with("DOC_"))
        .map(str::to_string)
        .collect()
}

#[derive(Debug)]
struct HelpEntry {
    section: &'static str,
    heads: Vec<String>,
    docs: Vec<String>,
}

/// Split a help text the way tiny-cli lays it out: header (struct docs, Usage line), then the
/// sections "Commands:" (one line per command: `  name[ - first doc line]`), "Arguments:" and
/// "Options:" (entry = head line `  [NAME]` / `  -s, --long` / `  -s` / `      --long`, then its
/// doc lines indented by 8 spaces, then an empty line).
fn parse_help(h: &str) -> (Vec<String>, Vec<HelpEntry>, Vec<String>) {
    let mut header = Vec::new();
    let mut loose = Vec::new();
    let mut entries: Vec<HelpEntry> = Vec::new();
    let mut section = "header";
    let mut open = false;
    for line in h.lines() {
        match line {
            "Commands:" => {
                section = "Commands";
                open = false;
                continue;
            }
            "Arguments:" => {
                section = "Arguments";
                open = false;
                continue;
            }
            "Options:" => {
                section = "Options";
                open = false;
                continue;
            }
            _ => {}
        }
        if section == "header" {
            header.extend(doc_words(line));
        } else if line.trim().is_empty() {
            open = false;
        } else if section == "Commands" {
            let name = line.split_whitespace().next().unwrap_or("").to_string();
            entries.push(HelpEntry {
                section,
                heads: vec![name],
                docs: doc_words(line),
            });
            open = false;
        } else if line.starts_with("        ") {
            if open {
                entries.last_mut().unwrap().docs.extend(doc_words(line));
            } else {
                loose.extend(doc_words(line));
            }
        } else {
            entries.push(HelpEntry {
                section,
                heads: line.trim().split(", ").map(str::to_string).collect(),
                docs: doc_words(line),
            });
            open = true;
        }
    }
    (header, entries, loose)
}

/// Every documented item's doc tokens sit in that item's own help entry, once; no entry carries
/// a token of another item; nothing from another level shows up. Returns (what, got, want).
fn doc_placement(g: &Grammar) -> Vec<(&'static str, String, String)> {
    let mut out = Vec::new();
    let (header, entries, loose) = parse_help(&g.help);
    let all: Vec<String> = doc_words(&g.help);
    let mut owned: Vec<&str> = g.doc.clone();
    for o in &g.opts {
        owned.extend(o.doc.iter());
    }
    for p in &g.pos {
        owned.extend(p.doc.iter());
    }
    if let Some(s) = &g.sub {
        owned.extend(s.field_doc.iter());
        for v in &s.var_docs {
            owned.extend(v.iter());
        }
    }
    for w in &all {
        if !owned.contains(&w.as_str()) {
            out.push(("doc-from-another-level", format!("{w} in {:?}", g.help), "only this level's doc comments".to_string()));
        }
    }
    for t in &owned {
        let n = all.iter().filter(|w| w == t).count();
        if n > 1 {
            out.push(("doc-repeated", format!("{t} x{n} in {:?}", g.help), "at most once".to_string()));
        }
    }
    for t in &g.doc {
        if !header.iter().any(|w| w == t) {
            out.push(("struct-doc-missing-from-header", format!("{:?}", g.help), format!("{t} before the Usage line")));
        }
    }
    if !loose.is_empty() {
        out.push(("doc-attached-to-wrong-item", format!("doc lines outside any entry: {loose:?}"), "none".into()));
    }
    let mut expect: Vec<(&'static str, Vec<String>, Vec<&str>, bool)> = Vec::new(); // section, heads, docs, all lines shown
    for o in &g.opts {
        expect.push(("Options", o.lits.iter().map(|l| (*l).to_string()).collect(), o.doc.clone(), true));
    }
    for p in &g.pos {
        expect.push(("Arguments", vec![format!("[{}]", p.name.to_uppercase())], p.doc.clone(), true));
    }
    if let Some(s) = &g.sub {
        for (i, (lit, _)) in s.vars.iter().enumerate() {
            // the command list shows the first doc line of a variant only
            expect.push(("Commands", vec![(*lit).to_string()], s.var_docs[i].clone(), false));
        }
    }
    let mut claimed = vec![false; entries.len()];
    for (section, heads, docs, all_lines) in &expect {
        let found = entries.iter().position(|en| {
            en.section == *section && en.heads.len() == heads.len() && heads.iter().all(|h| en.heads.contains(h))
        });
        let Some(ei) = found else {
            out.push(("entry-not-found", format!("{:?}", g.help), format!("an entry for {heads:?} under {section}")));
            continue;
        };
        claimed[ei] = true;
        let en = &entries[ei];
        for w in &en.docs {
            if !docs.contains(&w.as_str()) {
                out.push((
                    "doc-attached-to-wrong-item",
                    format!("entry {:?} carries {w}", en.heads),
                    if docs.is_empty() { "no doc text (the item is undocumented)".to_string() } else { format!("only {docs:?}") },
                ));
            }
        }
        let must: &[&str] = if *all_lines { docs } else { &docs[..docs.len().min(1)] };
        for t in must {
            if !en.docs.iter().any(|w| w == t) {
                out.push(("doc-missing-from-own-entry", format!("entry {:?} carries {:?}", en.heads, en.docs), format!("{t}")));
            }
        }
    }
    for (ei, en) in entries.iter().enumerate() {
        if !claimed[ei] {
            out.push(("undeclared-entry", format!("{:?} under {}", en.heads, en.section), "only declared items".into()));
        }
    }
    if let Some(s) = &g.sub {
        for en in &entries {
            for w in &en.docs {
                if s.field_doc.contains(&w.as_str()) {
                    out.push(("doc-attached-to-wrong-item", format!("entry {:?} carries {w} (doc of the subcommand field)", en.heads), "not in another item's entry".into()));
                }
            }
        }
    }
    out
}

/// help text of every level names every declared literal / positional / command
fn static_checks(st: &mut St, ents: &[Entry]) {
    fn level(st: &mut St, e: &Entry, g: &Grammar) {
        st.evals += 1;
        let mut missing = Vec::new();
        for o in &g.opts {
            for l in &o.lits {
                if !g.help.contains(l) {
                    missing.push((*l).to_string());
                }
            }
        }
        for p in &g.pos {
            let tag = format!("[{}]", p.name.to_uppercase());
            if !g.help.contains(&tag) {
                missing.push(tag);
            }
        }
        if let Some(s) = &g.sub {
            for (l, inner) in &s.vars {
                if !g.help.contains(l) {
                    missing.push((*l).to_string());
                }
                if let Some(ig) = inner {
                    level(st, e, ig);
                }
            }
        }
        if !g.help.contains("Usage:") {
            missing.push("Usage:".into());
        }
        for (what, got, want) in doc_placement(g) {
            st.viol(
                &format!("C20/help-content/{}/{what}", g.name),
                e,
                &[],
                "static/doc-comments",
                &got,
                &want,
            );
        }
        st.distinct(&[g.name, "help-doc-placement"]);
        if !missing.is_empty() {
            st.viol(
                &format!("C20/help-content/{}/declared-item-missing", g.name),
                e,
                &[],
                "static",
                &format!("{:?}", g.help),
                &format!("mentions {missing:?}"),
            );
        }
        st.distinct(&[g.name, "help-content"]);
    }
    for e in ents {
        level(st, e, &e.g);
    }
    // observation (not judged): option literals are normalised to lower-case kebab-case
    let e16 = ents.iter().find(|e| e.name == "S16Normalised").unwrap();
    let as_written = (e16.parse)(&[b"-V".to_vec()]);
    let normalised = (e16.parse)(&[b"-v".to_vec()]);
    vh::sample(
        &format!(
            "{{\"observation\":\"#[cli(short = \\\"V\\\", long = \\\"Verbose_Mode\\\")] is matched as -v / --verbose-mode\",\"-V\":{},\"-v\":{}}}",
            vh::js(&short(&as_written)),
            vh::js(&short(&normalised))
        ),
        8,
    );
    vh::count(
        "observed_option_literal_as_written_uppercase_accepted",
        u64::from(matches!(as_written, Real::Ok(_))),
    );
}

fn main() {
    let a = vh::args();
    let shard: u64 = a.rest.first().and_then(|s| s.parse().ok()).unwrap_or(0);
    let nshards: u64 = a.rest.get(1).and_then(|s| s.parse().ok()).unwrap_or(1).max(1);
    let secs: u64 = a.rest.get(2).and_then(|s| s.parse().ok()).unwrap_or(0);
    let ents = entries();
    let mut st = St::default();
    let mut r = Rng::new(a.seed ^ shard.wrapping_mul(0x9E37_79B9));
    match a.mode.as_str() {
        "sweep" => {
            let cfg = GenCfg { big: true };
            for e in &ents {
                let mut rr = r.fork(1);
                sweep_shape(&mut st, e, &mut rr, a.budget, &cfg, false);
            }
        }
        "random" => {
            for e in &ents {
                let mut rr = r.fork(2);
                random_vectors(&mut st, e, &mut rr, a.budget, true);
            }
        }
        "align" => {
            let lens: Vec<usize> = (80..=160).collect();
            for e in &ents {
                let mut rr = r.fork(4);
                align_sweep(&mut st, e, &mut rr, &lens, shard, nshards);
            }
        }
        "static" => static_checks(&mut st, &ents),
        "miri" => {
            // shapes are dealt round-robin to the shards; each gets an equal share of the time
            let mine: Vec<&Entry> = ents
                .iter()
                .enumerate()
                .filter(|(i, _)| *i as u64 % nshards == shard % nshards)
                .map(|(_, e)| e)
                .collect();
            let t0 = std::time::Instant::now();
            let cfg = GenCfg { big: false };
            for (k, e) in mine.iter().enumerate() {
                if secs > 0 {
                    st.deadline = Some(t0 + std::time::Duration::from_millis(secs * 1000 * (k as u64 + 1) / mine.len() as u64));
                }
                let mut rr = r.fork(3);
                sweep_shape(&mut st, e, &mut rr, a.budget, &cfg, true);
                random_vectors(&mut st, e, &mut rr, a.budget * 4, false);
                // a thin slice of the alignment sweep (lengths around the buffer edge)
                let lens: Vec<usize> = vec![96 + (shard as usize % 8), 128 + (shard as usize % 5)];
                align_sweep(&mut st, e, &mut rr, &lens, a.seed % 27, 27);
            }
            if shard == 0 {
                st.deadline = None;
                static_checks(&mut st, &ents);
            }
        }
        m => vh::inconclusive(&format!("h_cli: unknown mode {m}")),
    }
    let _ = nshards;
    st.flush();
}
