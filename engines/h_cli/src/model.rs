//! Generic side of the C20 oracle: value trees, grammar descriptions, the reference reading of
//! an argument list under a grammar, value generation and rendering.
use vh::Rng;

#[derive(Clone, Debug, PartialEq, Eq)]
pub enum Sc {
    /// string-like value (without terminator)
    B(Vec<u8>),
    I(i128),
    /// custom FromStr type: index of the accepted word
    T(u8),
    /// a UnixStr that came back without exactly one trailing NUL
    Broken,
}
#[derive(Clone, Debug, PartialEq, Eq)]
pub enum FV {
    Flag(bool),
    One(Option<Sc>),
    Many(Vec<Sc>),
}
#[derive(Clone, Debug, PartialEq, Eq)]
pub struct Val {
    pub opts: Vec<FV>,
    pub pos: Vec<Option<Sc>>,
    pub sub: Option<(usize, Option<Box<Val>>)>,
}

#[derive(Clone, Copy, Debug, PartialEq, Eq)]
pub enum Ty {
    /// must be UTF-8 (&str, String, UnixString fields)
    Str,
    /// any bytes (&UnixStr fields)
    Unix,
    Int { min: i128, max: i128 },
    /// custom FromStr accepting exactly these words
    Tag(&'static [&'static str]),
    /// custom FromStr accepting UTF-8 text starting with "ok:"; its error text quotes the input
    /// after a short prefix (user text inside the cause buffer)
    Echo,
}
#[derive(Clone, Copy, Debug, PartialEq, Eq)]
pub enum Kind {
    Flag,
    Req,
    Opt,
    Rep,
}
#[derive(Clone, Debug)]
pub struct O {
    pub lits: Vec<&'static str>,
    pub kind: Kind,
    pub ty: Ty,
    /// unique token of every doc comment line written on the field (empty = undocumented)
    pub doc: Vec<&'static str>,
}
impl O {
    pub fn d(mut self, doc: &[&'static str]) -> Self {
        self.doc = doc.to_vec();
        self
    }
}
#[derive(Clone, Debug)]
pub struct P {
    pub name: &'static str,
    pub req: bool,
    pub ty: Ty,
    pub doc: Vec<&'static str>,
}
impl P {
    pub fn d(mut self, doc: &[&'static str]) -> Self {
        self.doc = doc.to_vec();
        self
    }
}
#[derive(Clone, Debug)]
pub struct Sub {
    pub optional: bool,
    pub vars: Vec<(&'static str, Option<Grammar>)>,
    /// doc tokens written on the `#[cli(subcommand)]` field itself
    pub field_doc: Vec<&'static str>,
    /// doc tokens of each enum variant (same order as `vars`), one per doc line
    pub var_docs: Vec<Vec<&'static str>>,
}
#[derive(Clone, Debug)]
pub struct Grammar {
    pub name: &'static str,
    /// doc tokens written on the struct
    pub doc: Vec<&'static str>,
    pub opts: Vec<O>,
    pub pos: Vec<P>,
    pub sub: Option<Sub>,
    /// help text of this level (only used to tell levels apart)
    pub help: String,
}

#[derive(Clone, Copy, Debug, PartialEq, Eq)]
pub enum Class {
    Help,
    MissingValue,
    BadUtf8,
    BadValue,
    Unrecognized,
    MissingOption,
    MissingPositional,
    MissingCommand,
}
impl Class {
    pub fn name(self) -> &'static str {
        match self {
            Class::Help => "help",
            Class::MissingValue => "missing-value",
            Class::BadUtf8 => "not-utf8",
            Class::BadValue => "malformed-value",
            Class::Unrecognized => "unrecognized",
            Class::MissingOption => "missing-required-option",
            Class::MissingPositional => "missing-required-positional",
            Class::MissingCommand => "missing-required-command",
        }
    }
}

/// What the declared grammar says about an argument list.
#[derive(Clone, Debug)]
pub enum Expect {
    Accept(Val),
    /// class of the first defect met reading left to right (end-of-line requirements last,
    /// innermost level first), the level it belongs to, and every level entered on the way
    Reject {
        class: Class,
        level: String,
        visited: Vec<String>,
    },
    /// a single-valued option or a unit subcommand given more than once: the statement does not
    /// say which one wins or whether it is an error; only panic freedom is judged
    Unspecified,
}

pub fn is_help(a: &[u8]) -> bool {
    a == b"-h" || a == b"--help"
}

/// decimal integer as Rust's FromStr for the primitive integer types reads it
pub fn parse_int(b: &[u8], min: i128, max: i128) -> Option<i128> {
    let (neg, digits) = match b.first() {
        Some(b'-') if min < 0 => (true, &b[1..]),
        Some(b'+') => (false, &b[1..]),
        _ => (false, b),
    };
    if digits.is_empty() {
        return None;
    }
    let mut v: i128 = 0;
    for &d in digits {
        if !d.is_ascii_digit() {
            return None;
        }
        let dv = i128::from(d - b'0');
        v = v.checked_mul(10)?;
        v = if neg { v.checked_sub(dv)? } else { v.checked_add(dv)? };
    }
    (min..=max).contains(&v).then_some(v)
}

pub fn convert(ty: Ty, b: &[u8]) -> Result<Sc, Class> {
    match ty {
        Ty::Unix => Ok(Sc::B(b.to_vec())),
        Ty::Str => std::str::from_utf8(b)
            .map(|_| Sc::B(b.to_vec()))
            .map_err(|_| Class::BadUtf8),
        Ty::Int { min, max } => {
            std::str::from_utf8(b).map_err(|_| Class::BadUtf8)?;
            parse_int(b, min, max).map(Sc::I).ok_or(Class::BadValue)
        }
        Ty::Echo => {
            std::str::from_utf8(b).map_err(|_| Class::BadUtf8)?;
            if b.starts_with(b"ok:") {
                Ok(Sc::B(b.to_vec()))
            } else {
                Err(Class::BadValue)
            }
        }
        Ty::Tag(words) => {
            std::str::from_utf8(b).map_err(|_| Class::BadUtf8)?;
            words
                .iter()
                .position(|w| w.as_bytes() == b)
                .map(|i| Sc::T(i as u8))
                .ok_or(Class::BadValue)
        }
    }
}

impl Val {
    pub fn empty(g: &Grammar) -> Val {
        Val {
            opts: g
                .opts
                .iter()
                .map(|o| match o.kind {
                    Kind::Flag => FV::Flag(false),
                    Kind::Rep => FV::Many(vec![]),
                    _ => FV::One(None),
                })
                .collect(),
            pos: vec![None; g.pos.len()],
            sub: None,
        }
    }
}

struct Walk {
    visited: Vec<String>,
    dup: bool,
}

fn walk(g: &Grammar, args: &[Vec<u8>], i: &mut usize, w: &mut Walk) -> Result<Val, (Class, String)> {
    w.visited.push(g.name.to_string());
    let here = |c: Class| (c, g.name.to_string());
    let mut v = Val::empty(g);
    while *i < args.len() {
        let a = &args[*i];
        *i += 1;
        if let Some(oi) = g
            .opts
            .iter()
            .position(|o| o.lits.iter().any(|l| l.as_bytes() == &a[..]))
        {
            let o = &g.opts[oi];
            if o.kind == Kind::Flag {
                v.opts[oi] = FV::Flag(true);
                continue;
            }
            let Some(vb) = args.get(*i) else {
                return Err(here(Class::MissingValue));
            };
            *i += 1;
            let sc = convert(o.ty, vb).map_err(here)?;
            match &mut v.opts[oi] {
                FV::Many(xs) => xs.push(sc),
                FV::One(x) => {
                    if x.is_some() {
                        w.dup = true;
                    }
                    *x = Some(sc);
                }
                FV::Flag(_) => unreachable!(),
            }
            continue;
        }
        if is_help(a) {
            return Err(here(Class::Help));
        }
        if let Some(s) = &g.sub {
            if let Some(vi) = s.vars.iter().position(|(l, _)| l.as_bytes() == &a[..]) {
                if v.sub.is_some() {
                    w.dup = true;
                }
                match &s.vars[vi].1 {
                    Some(inner) => {
                        // the variant's own parser reads everything that follows
                        let iv = walk(inner, args, i, w)?;
                        v.sub = Some((vi, Some(Box::new(iv))));
                    }
                    None => v.sub = Some((vi, None)),
                }
                continue;
            }
            return Err(here(Class::Unrecognized));
        }
        if let Some(pi) = v.pos.iter().position(Option::is_none) {
            v.pos[pi] = Some(convert(g.pos[pi].ty, a).map_err(here)?);
            continue;
        }
        return Err(here(Class::Unrecognized));
    }
    for (oi, o) in g.opts.iter().enumerate() {
        if o.kind == Kind::Req && v.opts[oi] == FV::One(None) {
            return Err(here(Class::MissingOption));
        }
    }
    for (pi, p) in g.pos.iter().enumerate() {
        if p.req && v.pos[pi].is_none() {
            return Err(here(Class::MissingPositional));
        }
    }
    if let Some(s) = &g.sub {
        if !s.optional && v.sub.is_none() {
            return Err(here(Class::MissingCommand));
        }
    }
    Ok(v)
}

pub fn reference(g: &Grammar, args: &[Vec<u8>]) -> Expect {
    let mut w = Walk {
        visited: vec![],
        dup: false,
    };
    let mut i = 0;
    let r = walk(g, args, &mut i, &mut w);
    if w.dup {
        return Expect::Unspecified;
    }
    match r {
        Ok(v) => Expect::Accept(v),
        Err((class, level)) => Expect::Reject {
            class,
            level,
            visited: w.visited,
        },
    }
}

/// help text of a level by name
pub fn help_of<'a>(g: &'a Grammar, name: &str) -> Option<&'a str> {
    if g.name == name {
        return Some(&g.help);
    }
    if let Some(s) = &g.sub {
        for (_, inner) in &s.vars {
            if let Some(h) = inner.as_ref().and_then(|ig| help_of(ig, name)) {
                return Some(h);
            }
        }
    }
    None
}

pub fn all_literals(g: &Grammar, out: &mut Vec<Vec<u8>>) {
    for o in &g.opts {
        for l in &o.lits {
            out.push(l.as_bytes().to_vec());
        }
    }
    if let Some(s) = &g.sub {
        for (l, inner) in &s.vars {
            out.push(l.as_bytes().to_vec());
            if let Some(ig) = inner {
                all_literals(ig, out);
            }
        }
    }
}

fn is_literal_of_level(g: &Grammar, b: &[u8]) -> bool {
    is_help(b)
        || g.opts.iter().any(|o| o.lits.iter().any(|l| l.as_bytes() == b))
        || g.sub
            .as_ref()
            .is_some_and(|s| s.vars.iter().any(|(l, _)| l.as_bytes() == b))
}

// ---- value generation --------------------------------------------------------------------
pub struct GenCfg {
    /// allow 10 KiB strings (expensive under Miri)
    pub big: bool,
}

const WORDS: [&str; 14] = [
    "",
    "x",
    "hello world",
    "héllo",
    "日本語",
    "--verbose",
    "-h",
    "--help",
    "-",
    "--",
    "a=b",
    "with\"quote'and\\slash",
    "line\nbreak\ttab",
    "0",
];

fn gen_bytes(ty: Ty, r: &mut Rng, cfg: &GenCfg) -> Vec<u8> {
    match ty {
        Ty::Str => match r.below(12) {
            0 if cfg.big => "k".repeat(10 * 1024).into_bytes(),
            1 => "é".repeat(1 + r.below(100) as usize).into_bytes(),
            2 => {
                // random printable ASCII
                let n = r.below(24) as usize;
                (0..n).map(|_| 0x20 + r.below(0x5f) as u8).collect()
            }
            _ => r.pick(&WORDS).as_bytes().to_vec(),
        },
        Ty::Unix => match r.below(10) {
            0 if cfg.big => {
                let mut v = vec![0xFEu8; 10 * 1024];
                v[17] = b'a';
                v
            }
            1..=4 => {
                // arbitrary non-NUL bytes, usually not UTF-8
                let n = r.below(20) as usize;
                (0..n).map(|_| 1 + r.below(255) as u8).collect()
            }
            5 => vec![0xFF],
            6 => vec![0xC3],
            _ => r.pick(&WORDS).as_bytes().to_vec(),
        },
        Ty::Int { min, max } => {
            let v: i128 = match r.below(8) {
                0 => min,
                1 => max,
                2 => 0,
                3 => {
                    if min < 0 {
                        -1
                    } else {
                        1
                    }
                }
                4 => min + i128::from(r.below(3) as u32),
                5 => max - i128::from(r.below(3) as u32),
                _ => {
                    let span = (max as u128).wrapping_sub(min as u128);
                    let x = (u128::from(r.next()) << 64 | u128::from(r.next())) >> r.below(120);
                    let off = if span == u128::MAX { x } else { x % (span + 1) };
                    (min as u128).wrapping_add(off) as i128
                }
            };
            let mut s = v.to_string();
            // alternative spellings that denote the same number
            match r.below(6) {
                0 if v >= 0 => s = format!("+{s}"),
                1 if v >= 0 => s = format!("00{s}"),
                2 if v < 0 => s = format!("-00{}", &s[1..]),
                _ => {}
            }
            s.into_bytes()
        }
        Ty::Tag(words) => r.pick(words).as_bytes().to_vec(),
        Ty::Echo => format!("ok:{}", r.pick(&WORDS)).into_bytes(),
    }
}

/// Text for the alignment sweep: `pad` ASCII bytes, then characters of the given widths
/// (cycled) while they fit, then ASCII up to exactly `total` bytes.
pub fn aligned_text(pad: &[u8], widths: &[usize], total: usize) -> Vec<u8> {
    const CH: [&str; 5] = ["", "q", "ö", "€", "𝄞"];
    let mut v = pad.to_vec();
    let mut i = 0;
    while v.len() + widths[i % widths.len()] <= total {
        v.extend_from_slice(CH[widths[i % widths.len()]].as_bytes());
        i += 1;
    }
    while v.len() < total {
        v.push(b'z');
    }
    v
}
pub const FILLERS: [(&str, &[usize]); 6] = [
    ("2-byte", &[2]),
    ("3-byte", &[3]),
    ("4-byte", &[4]),
    ("mixed-2-3-4", &[2, 3, 4]),
    ("mixed-4-1-3", &[4, 1, 3]),
    ("mixed-3-2", &[3, 2]),
];
pub const PADS: [&[u8]; 9] = [b"", b"a", b"ab", b"abc", b"abcd", b"-", b"--", b"--a", b"--ab"];

/// a value and the bytes that spell it
fn gen_scalar(ty: Ty, r: &mut Rng, cfg: &GenCfg) -> (Sc, Vec<u8>) {
    let b = gen_bytes(ty, r, cfg);
    let sc = convert(ty, &b).expect("generator produced a value outside its own type");
    (sc, b)
}

/// One unit of a rendered line: an option occurrence or a positional
#[derive(Clone, Debug)]
pub struct Unit {
    /// index into opts, or usize::MAX for a positional
    pub opt: usize,
    pub args: Vec<Vec<u8>>,
}

/// Random value assignment for grammar `g`, rendered as units (declared order) + subcommand tail.
pub struct Rendered {
    pub val: Val,
    pub units: Vec<Unit>,
    /// subcommand literal followed by the rendering of the inner level
    pub tail: Vec<Vec<u8>>,
}

pub fn gen(g: &Grammar, r: &mut Rng, cfg: &GenCfg) -> Rendered {
    let mut val = Val::empty(g);
    let mut units = Vec::new();
    for (oi, o) in g.opts.iter().enumerate() {
        let lit = |r: &mut Rng| r.pick(&o.lits).as_bytes().to_vec();
        match o.kind {
            Kind::Flag => {
                if r.chance(1, 2) {
                    val.opts[oi] = FV::Flag(true);
                    units.push(Unit {
                        opt: oi,
                        args: vec![lit(r)],
                    });
                }
            }
            Kind::Req | Kind::Opt => {
                if o.kind == Kind::Req || r.chance(2, 3) {
                    let (sc, b) = gen_scalar(o.ty, r, cfg);
                    val.opts[oi] = FV::One(Some(sc));
                    units.push(Unit {
                        opt: oi,
                        args: vec![lit(r), b],
                    });
                }
            }
            Kind::Rep => {
                let n = [0, 0, 1, 2, 3, 5][r.below(6) as usize];
                let mut xs = Vec::new();
                for _ in 0..n {
                    let (sc, b) = gen_scalar(o.ty, r, cfg);
                    xs.push(sc);
                    units.push(Unit {
                        opt: oi,
                        args: vec![lit(r), b],
                    });
                }
                val.opts[oi] = FV::Many(xs);
            }
        }
    }
    for (pi, p) in g.pos.iter().enumerate() {
        if p.req || r.chance(1, 2) {
            // positional values equal to a literal of this level are outside the grammar
            let (sc, b) = loop {
                let (sc, b) = gen_scalar(p.ty, r, cfg);
                if !is_literal_of_level(g, &b) {
                    break (sc, b);
                }
            };
            val.pos[pi] = Some(sc);
            units.push(Unit {
                opt: usize::MAX,
                args: vec![b],
            });
        } else {
            break;
        }
    }
    let mut tail = Vec::new();
    if let Some(s) = &g.sub {
        if !s.optional || r.chance(3, 4) {
            let vi = r.below(s.vars.len() as u64) as usize;
            tail.push(s.vars[vi].0.as_bytes().to_vec());
            match &s.vars[vi].1 {
                Some(inner) => {
                    let ir = gen(inner, r, cfg);
                    tail.extend(flatten(&ir.units, &identity(ir.units.len())));
                    tail.extend(ir.tail);
                    val.sub = Some((vi, Some(Box::new(ir.val))));
                }
                None => val.sub = Some((vi, None)),
            }
        }
    }
    Rendered { val, units, tail }
}

pub fn identity(n: usize) -> Vec<usize> {
    (0..n).collect()
}

/// Lay the units out in the order given by `perm`, keeping positionals and the occurrences of
/// one repeated option in their original relative order (their order carries meaning).
pub fn flatten(units: &[Unit], perm: &[usize]) -> Vec<Vec<u8>> {
    let mut order: Vec<usize> = perm.to_vec();
    // for every group (same opt id), the slots it occupies get its members in ascending order
    let mut groups: std::collections::BTreeMap<usize, Vec<usize>> = std::collections::BTreeMap::new();
    for (slot, &ui) in order.iter().enumerate() {
        groups.entry(units[ui].opt).or_default().push(slot);
    }
    for slots in groups.values() {
        let mut members: Vec<usize> = slots.iter().map(|&s| order[s]).collect();
        members.sort_unstable();
        for (s, m) in slots.iter().zip(members) {
            order[*s] = m;
        }
    }
    let mut out = Vec::new();
    for ui in order {
        out.extend(units[ui].args.iter().cloned());
    }
    out
}

/// all permutations of 0..n (n <= 5 in practice), Heap's algorithm
pub fn permutations(n: usize) -> Vec<Vec<usize>> {
    let mut out = Vec::new();
    let mut a = identity(n);
    let mut c = vec![0usize; n];
    out.push(a.clone());
    let mut i = 0;
    while i < n {
        if c[i] < i {
            if i % 2 == 0 {
                a.swap(0, i);
            } else {
                a.swap(c[i], i);
            }
            out.push(a.clone());
            c[i] += 1;
            i = 0;
        } else {
            c[i] = 0;
            i += 1;
        }
    }
    out
}

pub fn shuffle(r: &mut Rng, n: usize) -> Vec<usize> {
    let mut a = identity(n);
    for i in (1..n).rev() {
        let j = r.below(i as u64 + 1) as usize;
        a.swap(i, j);
    }
    a
}
